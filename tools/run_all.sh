#!/bin/sh
# runs every registered check of a tier in sequence; prints one line per property
# usage: tools/run_all.sh [quick|thorough] [C01 C02 ...]   (default: all properties)
TIER="${1:-quick}"
[ $# -gt 0 ] && shift
PROPS="${*:-C01 C02 C03 C04 C05 C06 C07 C08 C09 C10 C11 C12 C13 C14 C15 C16 C17 C18 C19 C20}"
cd "$(dirname "$0")/.." && ./bootstrap.sh >/dev/null
FAIL=0
for P in $PROPS; do
  START=$(date +%s)
  .venv/bin/python -m vf.check $P --tier $TIER > /tmp/run_all_$P.log 2>&1; RC=$?
  END=$(date +%s)
  echo "$P exit=$RC $((END-START))s $(grep "tier=$TIER" /tmp/run_all_$P.log | sed 's/.*harnesses=/harnesses=/' | cut -c1-170)"
  if [ $RC -ne 0 ]; then FAIL=1; grep -E "VIOLATION|INCONCLUSIVE|MODEL-ERROR" /tmp/run_all_$P.log | head -3 | cut -c1-200; fi
done
exit $FAIL
