#!/bin/sh
# usage: tools/validate_seed.sh <seed dir> -- confirms a seeded change in a scratch worktree of /repo's HEAD:
# patch applies, baseline tests unchanged (515 passed / 7 failed), demo FAILs with the patch and PASSes without.
D="$1"; P="$D/patch.diff"; [ -f "$D/patch_rebased.diff" ] && P="$D/patch_rebased.diff"
WT=/tmp/wt_validate
git -C /repo worktree remove --force $WT >/dev/null 2>&1
git -C /repo worktree add --detach $WT HEAD -q || exit 9
cd $WT
if ! git apply "$P" 2>/tmp/validate.err; then echo "APPLY: FAILS ($(head -1 /tmp/validate.err))"; cd /; git -C /repo worktree remove --force $WT; exit 8; fi
echo "APPLY: ok ($P)"
echo "TESTS: $(/venv/bin/python -m pytest -q -p no:cacheprovider --timeout=900 2>&1 | tail -1)"
DATAITER_USE_NUMBA=${SEED_NUMBA:-0} /venv/bin/python "$D/demo.py" > /tmp/validate.demo 2>&1; echo "DEMO with patch: exit=$? $(tail -1 /tmp/validate.demo | cut -c1-200)"
git checkout -q -- . 
DATAITER_USE_NUMBA=${SEED_NUMBA:-0} /venv/bin/python "$D/demo.py" > /tmp/validate.demo 2>&1; echo "DEMO without   : exit=$? $(tail -1 /tmp/validate.demo | cut -c1-200)"
cd /; git -C /repo worktree remove --force $WT
