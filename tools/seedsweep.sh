#!/bin/sh
# Development aid: runs every archived seeded change against the quick check of its property (scratch worktree, /repo untouched).
# Expectation: exit 1 (a reproduced violation) for every seed that still applies to /repo's HEAD.
# usage: tools/seedsweep.sh [parallel jobs, default 1] [id pattern, default C]
cd "$(dirname "$0")/.." || exit 9
J="${1:-1}"; PAT="${2:-C}"
ls -d seeded/${PAT}*/ | xargs -P "$J" -n 1 sh -c '
  D=$0; ID=$(basename $D); PROP=$(python3 -c "import json,sys; print(json.load(open(\"$D/meta.json\"))[\"property\"])")
  R=$(tools/seedtest_wt.sh $PWD/$D/patch.diff $PROP 2>&1 | grep -v WARN | head -2 | tr "\n" " " | cut -c1-160)
  echo "$ID $PROP $R"'
