#!/usr/bin/env python3
"""archive a confirmed seeded change: tools/archive_seed.py <seed dir> <id> <property> <detected: yes|no|n/a> "<check result>" ["note"]"""
import json, os, shutil, sys
src, sid, prop, detected, result = sys.argv[1:6]
note = sys.argv[6] if len(sys.argv) > 6 else ""
dst = os.path.join("/verif/seeded", sid)
os.makedirs(dst, exist_ok=True)
patch = os.path.join(src, "patch_rebased.diff") if os.path.exists(os.path.join(src, "patch_rebased.diff")) else os.path.join(src, "patch.diff")
shutil.copy(patch, os.path.join(dst, "patch.diff"))
shutil.copy(os.path.join(src, "demo.py"), os.path.join(dst, "demo.py"))
meta = json.load(open(os.path.join(src, "meta.json")))
meta.update({"property": prop, "breaks": prop, "origin": "independent sub-agent given only the property text and a scratch worktree",
             "confirmed": "tools/validate_seed.sh: patch applies to /repo HEAD, baseline suite unchanged (515 passed / 7 failed), demo.py FAILs with the patch and PASSes without",
             "rebased_onto_fixed_tree": patch.endswith("patch_rebased.diff"),
             "detected_by_check": detected, "check_run": result, "note": note})
json.dump(meta, open(os.path.join(dst, "meta.json"), "w"), indent=1)
print("archived", sid)
