#!/bin/sh
# usage: tools/seedtest_wt.sh <patch.diff> <PROP> [tier] -- like seedtest.sh but never touches /repo: the seeded change is
# applied in a scratch worktree (VF_REPO) and evidence goes to a scratch directory. Development aid only.
PATCH="$1"; PROP="$2"; TIER="${3:-quick}"
WT=/tmp/wt_seedtest_$$
git -C /repo worktree add --detach $WT HEAD -q || exit 9
if ! git -C $WT apply "$PATCH" 2>/tmp/seedtest.err; then echo "PATCH DOES NOT APPLY"; head -5 /tmp/seedtest.err; git -C /repo worktree remove --force $WT; exit 8; fi
cd "$(dirname "$0")/.."
VF_REPO=$WT VF_EVIDENCE_DIR=/tmp/seedtest_ev_$$ .venv/bin/python -m vf.check "$PROP" --tier "$TIER" > /tmp/seedtest_$$.out 2>&1
RC=$?
git -C /repo worktree remove --force $WT; rm -rf /tmp/seedtest_ev_$$
echo "exit=$RC"
grep -E "VIOLATION|INCONCLUSIVE|MODEL-ERROR|KNOWN|violation in|tier=" /tmp/seedtest_$$.out | cut -c1-260 | head -12
rm -f /tmp/seedtest_$$.out
