#!/bin/sh
# Development aid: for every "fixed" entry of known_findings.json, reverse-apply the fix commit to /repo's working tree,
# run the quick check of the property it is recorded under, and restore the tree.  Expectation: exit 1 + VIOLATION.
cd /repo || exit 9
git diff --quiet || { echo "/repo not clean"; exit 9; }
python3 - <<'PY' > /tmp/fixrevert.list
import json
seen = set()
for f in json.load(open("/verif/known_findings.json"))["findings"]:
    if f["status"] == "fixed" and (f["property"], f["commit"]) not in seen:
        seen.add((f["property"], f["commit"])); print(f["property"], f["commit"])
PY
while read PROP COMMIT; do
  if git show "$COMMIT" -- dataiter | git apply -R 2>/dev/null; then
    (cd /verif && .venv/bin/python -m vf.check "$PROP" --tier quick > /tmp/fixrevert.out 2>&1); RC=$?
    N=$(grep -c "^VIOLATION" /tmp/fixrevert.out)
    echo "$PROP $COMMIT exit=$RC violations=$N $(grep -m1 'violation in' /tmp/fixrevert.out | cut -c1-150)"
  else
    echo "$PROP $COMMIT REVERSE-APPLY-FAILED (later fix touches the same lines)"
  fi
  git checkout -- . 
done < /tmp/fixrevert.list
