#!/bin/sh
# usage: tools/seedtest.sh <patch.diff> <PROP> [tier] -- applies a seeded change to /repo, runs the check, reverts.
# Development aid only; never leaves /repo modified.
PATCH="$1"; PROP="$2"; TIER="${3:-quick}"
cd /repo || exit 9
if ! git diff --quiet; then echo "/repo not clean"; exit 9; fi
if ! git apply "$PATCH" 2>/tmp/seedtest.err; then
  echo "PATCH DOES NOT APPLY"; cat /tmp/seedtest.err | head -5; git reset -q --hard HEAD; exit 8
fi
git reset -q
cd /verif
.venv/bin/python -m vf.check "$PROP" --tier "$TIER" > /tmp/seedtest.out 2>&1
RC=$?
cd /repo && git checkout -- . 
echo "exit=$RC"
grep -E "VIOLATION|INCONCLUSIVE|MODEL-ERROR|KNOWN|violation in|tier=" /tmp/seedtest.out | cut -c1-260 | head -12
