#!/bin/sh
# Development aid: like fixrevert.sh, but in a scratch worktree (VF_REPO) so that /repo itself is never touched:
# for every "fixed" entry of known_findings.json, reverse-apply the fix commit, run the quick check of the property it is
# recorded under, expect exit 1 + VIOLATION.
cd "$(dirname "$0")/.." || exit 9
python3 - <<'PY' > /tmp/fixrevert.list
import json
seen = set()
for f in json.load(open("known_findings.json"))["findings"]:
    if f["status"] == "fixed" and (f["property"], f["commit"]) not in seen:
        seen.add((f["property"], f["commit"])); print(f["property"], f["commit"])
PY
while read PROP COMMIT; do
  WT=/tmp/wt_fixrevert_$$
  git -C /repo worktree add --detach $WT HEAD -q || exit 9
  if git -C /repo show "$COMMIT" -- dataiter | git -C $WT apply -R 2>/dev/null; then
    VF_REPO=$WT VF_EVIDENCE_DIR=/tmp/fixrevert_ev_$$ .venv/bin/python -m vf.check "$PROP" --tier quick > /tmp/fixrevert.out 2>&1; RC=$?
    N=$(grep -c "^VIOLATION" /tmp/fixrevert.out)
    echo "$PROP $COMMIT exit=$RC violations=$N $(grep -m1 'violation in' /tmp/fixrevert.out | cut -c1-150)"
  else
    echo "$PROP $COMMIT REVERSE-APPLY-FAILED (later fix touches the same lines)"
  fi
  git -C /repo worktree remove --force $WT; rm -rf /tmp/fixrevert_ev_$$
done < /tmp/fixrevert.list
