#!/usr/bin/env python3
"""Regenerates MANIFEST.json from the table below (kept in one place so that it stays valid)."""
import json, os
HERE = os.path.dirname(os.path.dirname(os.path.abspath(__file__)))
props = [json.loads(l) for l in open(os.path.join(HERE, "properties.jsonl"))]
TECH = "bounded symbolic execution of the real dataiter source over a symbolic NumPy model (z3: Bool+BitVec64+Float64), per-path obligation pc ∧ ¬property discharged unsat; counterexamples and one witness per path replayed on the real build"
NOTE = ("Trusted base: the symnp NumPy model and the stubs listed in the evidence 'assumptions' (every explored path's witness is "
        "cross-checked against the real NumPy build), z3, the spec functions in vf/harness. Bounded: table sizes, dtypes and "
        "argument ranges are listed per harness in evidence coverage.harnesses[*].bounds; nothing is claimed beyond them. "
        "Common to every check: the clause that a call leaves the package's default arguments and class-level containers unchanged. "
        "Where a harness names probes (C08, C12, C13), extra solver-chosen inputs per path are run on the real build and judged by the "
        "concrete spec: observations aimed at what the model cannot see into (uninterpreted reducers, compiled kernels, C serializers), "
        "counted separately in the evidence, never part of the solver's verdict.")
CLAIMED = {
 "C02": ("§6 C02", "For every frame with <= 3 (quick) / 4 (thorough) rows over the listed dtypes and for ALL cell values, masks, index vectors and n, each of the nine subsetting methods returns exactly the reference row-id list with bit-identical cells; decided by the solver per path, not sampled."),
 "C03": ("§6 C03", "For every frame within the bounds and ALL cell values, sort returns a permutation with identical cells, ordered lexicographically by the keys in the requested directions, stable, missing keys together (last when ascending), and does not raise; outside the two recorded known-finding regions."),
 "C04": ("§6 C04", "For every frame within the bounds and ALL key/value cells, aggregate/count/split/grouped modify use exactly the partition into classes of equal keys (missing = own class), ascending, rows in original order, and helper shorthand equals the lambda form; outside the recorded known-finding regions."),
 "C01": ("§6 C01", "Constructor/assignment broadcast arithmetic for all length combinations within the bounds (succeeds iff every length is 1 or the maximum, rejected values leave the frame unchanged), one public operation from an arbitrary valid frame with awkward column names, and all in-place edit histories of depth <= 2 (quick) / 3 (thorough): every reachable frame satisfies the rectangularity invariant and key/attribute coherence."),
 "C06": ("§6 C06", "Every non-in-place DataFrame/Vector method family is re-run with the oracle 'operands cell-for-cell identical after the call (all cell values symbolic) and no result buffer is an operand buffer' (buffer identity in the model, np.shares_memory on each replayed witness)."),
 "C09": ("§6 C09", "rbind/cbind/update/modify/select/unselect/rename/colnames against a list-of-columns reference for ALL cell values and all choices of column subsets, orders, rename maps (incl. permutations) within the bounds."),
 "C11": ("§6 C11", "Vector.sort/rank/unique against the statement's counting definitions for ALL element values of each dtype, lengths 0..3 (quick) / 0..4 (thorough), both directions, all three rank methods."),
 "C15": ("§6 C15", "Every listed ListOfDicts method against the same operation on plain Python lists/dicts (identity tags, per-key values) for ALL item values, predicate outcomes, n / index / multiplier values and all ragged-key / None patterns within the bounds."),
 "C16": ("§6 C16", "The five ListOfDicts joins against a nested-loop first-match reference (None keys, renamed keys, overlapping payload keys) and aggregate against the partition into key classes, for ALL key/payload values within the bounds."),
 "C17": ("§6 C17", "Isolation: item contents identical after every non-modifying method and for every join's right-hand argument, deepcopy independence, for ALL item values. Obsolescence: all derivation histories of depth <= 2 (quick) / 3 (thorough) followed by one editing method and two uses of every node: obsolete flag and warn-once behaviour equal the ancestor oracle; outside the recorded known-finding region."),
 "C07": ("§6 C07", "All sixteen helpers in both calling forms against per-element oracles: exact formulas for count/count_unique/first/last/nth/min/max/sum/all/any/mode (NA policy, defaults, tie-break), and for mean/median/quantile/std/var the uninterpreted NumPy reducer applied to exactly the participating elements (or NaN below the required count) - for ALL element values, nth indices, q, drop_na and ddof settings and all group layouts within the bounds."),
 "C08": ("§6 C08", "Solver-decided: for every accelerated helper and eligible dtype, DataFrame.aggregate with USE_NUMBA off and on (both implementations executed as Python source, Numba NA dispatch modelled by cell sort) yields the same values, missing positions and result dtype for ALL cell values, group layouts and helper arguments within the bounds; every path witness is replayed on the real Numba build in a fresh process. Observed only (no solver verdict): the order-of-first-use clause, by replaying all ordered selections of 2 (quick) / 3 (thorough) helpers in fresh processes with fresh JIT caches."),
 "C10": ("§6 C10", "Vector construction from Python lists of every element family (bool/int/float/str/date/datetime/np scalars/timedelta64/objects) with None / NaN at any position, with and without an explicit dtype: inferred dtype and missing-value representative, is_na positions, tolist values, rebuild-equality, na_dtype/na_value, drop_na/replace_na - for ALL symbolic element values within the bounds; equal() as an equivalence relation over three symbolic vectors."),
 "C14": ("§6 C14", "Alias forwarding: each of the five module-level read functions called with every subset of its keyword arguments (distinguishable sentinels) hands exactly those values to the class method and returns its result. Restriction: DataFrame.from_json / ListOfDicts.from_json / ListOfDicts.read_csv with a column/key restriction equal read-everything-then-select for all ragged record shapes, requested orders and integer values within the bounds (json / csv / file layer stubbed by contract in the symbolic run, real in the replay)."),
 "C18": ("§6 C18", "GeoJSON.read on an arbitrary symbolic feature collection (ragged property sets, null values, null/Point geometry, extra top-level members; json and the file layer stubbed by contract): one row per feature, a column per property key, geometry objects unchanged, other members in metadata. GeoJSON.write: the hand-assembled text (captured as a template whose json.dumps blobs are valid by contract) parses as JSON with the same features and metadata, and every member name inserted verbatim must be a valid JSON string literal for ALL names (bounded symbolic string); outside the recorded known-finding region."),
 "C13": ("§6 C13", "ListOfDicts and JSON legs end to end (one record per row, one field per column, null iff missing, back-conversion with the same names, values, missing positions and dtype) for ALL cell values; from_pandas / from_arrow as units against an arbitrary foreign column (contract stub: to_numpy() + null mask) for ALL cell values and null positions incl. the first; the real pandas / pyarrow round trip is observed through witness replay only."),
 "C19": ("§6 C19", "Routing of every dt extractor, replace (scalar and vector components), to_string/from_string and every regex function: the calendar / re functions are uninterpreted (same symbol in implementation and oracle, evaluated by Python's own datetime / re on concrete replays), so what is decided for ALL ticks, NaT positions, component values and string contents is: element i of the result is f(element i), missing exactly at NaT / '', scalar call == one-element call, .dt / .re proxies == module functions, quarter == ceil(month/3), from_string inverts to_string under the assumed strptime/strftime inverse."),
 "C20": ("§6 C20", "The real to_string / repr / print_ code of DataFrame, GeoJSON, Vector and ListOfDicts runs on token strings: formatted numbers are placeholders of ARBITRARY display width (1..30), max_width / terminal width / max_rows are symbolic, strings come from a pool with wide, combining, multi-line, long and empty texts. Decided per path: no exception, operand unchanged, every column name and dtype label shown, min(nrow, max_rows) data rows per block, all lines of a block of equal display width (an arithmetic identity over the symbolic widths), row total stated iff rows were cut."),
 "C12": ("§6 C12", "Plumbing only: for every format x suffix x sep/header/encoding choice within the bounds, write_X followed by read_X uses the codec named by the suffix on both sides and hands consistent options to writer and reader, over contract models of the file system and of pyarrow/pickle/npz/json/csv (vf/fsstub.py); the fidelity of those C serializers themselves is NOT decided - it is only observed on each path's witness through real files in the replay; outside the recorded known-finding region."),
 "C05": ("§6 C05", "For every pair of frames within the bounds and ALL key and payload cells, the five joins agree with a nested-loop first-match reference (missing keys never match, renamed keys, empty sides) and do not raise."),
}
m = {"version": 1, "setup_cmd": "./bootstrap.sh",
     "hooks": {"guard": "DATAITER_VERIF",
               "enable": "no hooks in /repo: checks import /repo's sources under a substituted numpy module (sys.modules) and patch environment stubs from outside",
               "baseline_off_cmd": "cd /repo && /venv/bin/python -m pytest -ra -q -p no:cacheprovider --timeout=900 --continue-on-collection-errors",
               "source_commits": [], "add_only": True},
     "engines": [{"name": "symx+symnp", "path": "vf/", "serves_properties": sorted(CLAIMED),
                  "kind_free_text": "own dynamic symbolic executor (operator overloading, decision-trace replay, 16 worker processes) running the unmodified dataiter source over a symbolic NumPy model; z3 portfolio simplify/fpa2bv/bit-blast/sat -> qffpbv -> default; replay server on the real build"}],
     "checks": [], "not_applicable": [],
     "notes": "Exit codes of every check: 0 held / 1 reproduced violation (VIOLATION lines) / 2 inconclusive / 3 harness or model error. See DESIGN.md."}
for p in props:
    i = p["id"]
    if i in CLAIMED:
        ref, text = CLAIMED[i]
        m["checks"].append({"property_id": i,
                            "quick_cmd": f"./bootstrap.sh && .venv/bin/python -m vf.check {i} --tier quick",
                            "thorough_cmd": f"./bootstrap.sh && .venv/bin/python -m vf.check {i} --tier thorough",
                            "evidence_file": f"evidence/{i}.json",
                            "replay_cmd_template": ".venv/bin/python -m vf.check --replay {path}",
                            "engine": "symx+symnp",
                            "level_claimed": {"category": "model_checking", "text": text, "design_ref": ref},
                            "level_note": NOTE, "technique": TECH})
    else:
        m["not_applicable"].append({"property_id": i, "reason": "check not built yet (work in progress; see DESIGN.md §6 for the intended harness)"})
json.dump(m, open(os.path.join(HERE, "MANIFEST.json"), "w"), indent=1, ensure_ascii=False)
print("claimed:", sorted(CLAIMED))
