"""Verification framework for otsaloma/dataiter: solver-based checking of the real code.

symx   – dynamic symbolic executor (operator overloading + decision-trace replay, z3)
symnp  – pure-Python NumPy model with concrete-length arrays and symbolic cells
stubs  – contract stubs for the C environment (json, files, pyarrow, datetime, re, ...)
harness– per-property harness families
replay – server run by /venv/bin/python against the REAL build
check  – CLI
"""
