"""Line coverage of /repo/dataiter under the symbolic run (sys.monitoring, near-zero cost:
each location reports once per process and is then disabled)."""
import os
import sys

_seen = set()
_new = set()
_on = False
TOOL = 3
ROOT = os.environ.get("VF_REPO", "/repo") + "/dataiter/"

def _line(code, line):
    fn = code.co_filename
    if fn.startswith(ROOT) and "/test/" not in fn:
        k = (fn[len(ROOT):], line, code.co_qualname)
        if k not in _seen:
            _seen.add(k); _new.add(k)
    return sys.monitoring.DISABLE

def start():
    global _on
    if _on: return
    mon = sys.monitoring
    try:
        mon.use_tool_id(TOOL, "vf-coverage")
    except ValueError:
        return
    mon.register_callback(TOOL, mon.events.LINE, _line)
    mon.set_events(TOOL, mon.events.LINE)
    _on = True

def drain():
    """Lines newly seen in this process since the last drain."""
    global _new
    out = _new
    _new = set()
    return out
