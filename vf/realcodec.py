"""Real-side codec (runs under /venv/bin/python with the real NumPy and the real dataiter)."""
import datetime as _dtm
import math
import struct

import numpy as np
import dataiter as di

from .tree import NAN_HEX, dtype_kind, dtype_unit, Opaque, Raised

INT64_MIN = -2**63

def hex_of_float(x):
    x = float(x)
    if x != x: return NAN_HEX
    return "%016x" % struct.unpack("<Q", struct.pack("<d", x))[0]

def float_of_hex(h):
    return struct.unpack("<d", struct.pack("<Q", int(h, 16)))[0]

def np_dtype(s):
    if s == "string": return di.dtypes.string
    return np.dtype(s)

def dtype_str(dt):
    if isinstance(dt, np.dtypes.StringDType): return "string"
    if dt.kind == "U": return f"<U{dt.itemsize // 4}"
    return str(dt)

# ------------------------------------------------------------------ JSON -> live

def dec_cells(cells, dtype):
    k = dtype_kind(dtype)
    if k == "f": return np.array([float_of_hex(c) for c in cells], dtype=float)
    if k == "i": return np.array(cells, dtype=np.int64)
    if k == "b": return np.array(cells, dtype=bool)
    if k in "Mm": return np.array(cells, dtype=np.int64).view(np.dtype(dtype))
    if k == "T": return np.array(cells, dtype=di.dtypes.string)
    if k == "U": return np.array(cells, dtype=np.dtype(dtype))
    a = np.empty(len(cells), dtype=object)
    for i, c in enumerate(cells):
        a[i] = decode(c)
    return a

def decode(j):
    if j is None or isinstance(j, (bool, str, int)): return j
    if "f" in j: return float_of_hex(j["f"])
    if "M" in j: return np.int64(j["M"]).view(f"datetime64[{j['u']}]") if j["u"] != "generic" else np.datetime64("NaT")
    if "m" in j: return np.timedelta64(j["m"], j["u"]) if j["u"] != "generic" else np.timedelta64(j["m"])
    if "a" in j:
        a = dec_cells(j["cells"], j["a"])
        cls = {"ndarray": None, "Vector": di.Vector, "DataFrameColumn": di.DataFrameColumn}[j["cls"]]
        return a if cls is None else a.view(cls)
    if "df" in j:
        cls = {"DataFrame": di.DataFrame, "GeoJSON": di.GeoJSON}[j["df"]]
        f = cls(**{k: decode(v) for k, v in j["cols"]})
        if j["group"]: f.group_by(*j["group"])
        for k, v in j.get("attrs", {}).items():
            setattr(f, k, decode(v))
        return f
    if "lod" in j:
        lod = di.ListOfDicts([{k: decode(v) for k, v in item} for item in j["items"]])
        if j["group"]: lod.group_by(*j["group"])
        return lod
    if "l" in j: return [decode(x) for x in j["l"]]
    if "t" in j: return tuple(decode(x) for x in j["t"])
    if "d" in j: return {decode(k): decode(v) for k, v in j["d"]}
    if "dt" in j: return _dtm.datetime.fromisoformat(j["dt"])
    if "date" in j: return _dtm.date.fromisoformat(j["date"])
    if "opaque" in j: return Opaque(j["opaque"])
    if "np" in j:
        v = decode(j["np"])
        if isinstance(v, bool): return np.bool_(v)
        if isinstance(v, int): return np.int64(v)
        if isinstance(v, float): return np.float64(v)
        return v
    if "td" in j: return _dtm.timedelta(microseconds=j["td"])
    raise ValueError(f"decode: {j!r}")

# ------------------------------------------------------------------ live -> JSON

def enc_cells(a):
    a = np.asarray(a)      # base-class view: Vector overrides tolist()
    k = a.dtype.kind
    if isinstance(a.dtype, np.dtypes.StringDType): return [str(x) for x in a.tolist()]
    if k == "f": return [hex_of_float(x) for x in a.tolist()]
    if k in "iu": return [int(x) for x in a.tolist()]
    if k == "b": return [bool(x) for x in a.tolist()]
    if k in "Mm": return [int(x) for x in np.asarray(a).view(np.int64).tolist()]
    if k == "U": return [str(x) for x in a.tolist()]
    if k == "O": return [encode(x) for x in np.asarray(a).tolist()] if False else [encode(a[i]) for i in range(len(a))]
    raise ValueError(f"enc_cells: dtype {a.dtype}")

def encode(x):
    if type(x).__name__ == "Passthrough" and hasattr(x, "j"): return x.j
    if x is None or isinstance(x, (bool, str)): return x
    if isinstance(x, np.bool_): return bool(x)
    if isinstance(x, (int, np.integer)) and not isinstance(x, np.timedelta64): return int(x)      # timedelta64 is a signedinteger
    if isinstance(x, (float, np.floating)): return {"f": hex_of_float(x)}
    if isinstance(x, (np.datetime64, np.timedelta64)):
        unit = np.datetime_data(x.dtype)[0]
        key = "M" if isinstance(x, np.datetime64) else "m"
        if np.isnat(x): return {key: INT64_MIN, "u": "generic"}
        t = int(x.astype(np.int64))
        if unit in ("s", "ms") or (key == "m" and unit in ("D", "h", "m")):
            t *= {"s": 10**6, "ms": 1000, "D": 86400 * 10**6, "h": 3600 * 10**6, "m": 60 * 10**6}[unit]; unit = "us"
        return {key: t, "u": unit}
    if isinstance(x, np.ndarray):
        if x.ndim != 1:
            return {"a": "ndim%d" % x.ndim, "cls": type(x).__name__, "cells": []}
        return {"a": dtype_str(x.dtype), "cls": type(x).__name__, "cells": enc_cells(x)}
    if isinstance(x, di.DataFrame):
        attrs = {}
        if isinstance(x, di.GeoJSON):
            attrs["metadata"] = encode(dict(x.metadata))
        return {"df": type(x).__name__, "cols": [[k, encode(v)] for k, v in dict.items(x)],
                "group": list(getattr(x, "_group_colnames", ())), "attrs": attrs}
    if isinstance(x, di.ListOfDicts):
        return {"lod": type(x).__name__, "items": [[[k, encode(v)] for k, v in item.items()] for item in x],
                "obsolete": bool(list.__getattribute__(x, "_obsolete")),
                "group": list(list.__getattribute__(x, "_group_keys")),
                "item_cls": sorted({type(i).__name__ for i in x})}
    if isinstance(x, Raised): return {"exc": x.type, "msg": x.msg}
    if isinstance(x, Opaque): return {"opaque": x.tag}
    if isinstance(x, list): return {"l": [encode(v) for v in x]}
    if isinstance(x, tuple): return {"t": [encode(v) for v in x]}
    if isinstance(x, dict): return {"d": [[encode(k), encode(v)] for k, v in x.items()]}
    # canonical form shared with the symbolic side: Python date <-> unit D, datetime/timedelta <-> microseconds
    if isinstance(x, _dtm.timedelta): return {"m": x // _dtm.timedelta(microseconds=1), "u": "us"}
    if isinstance(x, _dtm.datetime): return {"M": (x - _dtm.datetime(1970, 1, 1)) // _dtm.timedelta(microseconds=1), "u": "us"}
    if isinstance(x, _dtm.date): return {"M": (x - _dtm.date(1970, 1, 1)).days, "u": "D"}
    if isinstance(x, type): return {"type": x.__name__}
    if type(x).__name__ == "Match" and hasattr(x, "span"): return {"l": ["re.Match", x.span()[0], x.span()[1], x.group(0)]}
    raise ValueError(f"encode: unsupported {type(x).__name__}: {x!r}")
