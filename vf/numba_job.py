"""Runs one aggregation job on the REAL build with Numba switched off and on, in THIS fresh process
(fresh interpreter, and a fresh NUMBA_CACHE_DIR unless the caller shares one).  JSON in on stdin, JSON out."""
import json
import os
import sys

def run_steps(di, realcodec, steps, use_numba):
    """each step: aggregate one helper on the frame; returns encoded result frames"""
    from unittest.mock import patch
    from vf import ops
    outs = []
    with patch("dataiter.USE_NUMBA", use_numba):
        for st in steps:
            inp = realcodec.decode(st)
            try:
                outs.append(realcodec.encode(ops.aggregate_once(inp, di)))
            except Exception as e:
                outs.append({"exc": type(e).__name__, "msg": str(e)[:300]})
    return outs

def main():
    repo = os.environ.get("VF_REPO", "/repo")
    sys.path.insert(0, repo)
    os.environ.pop("DATAITER_USE_NUMBA", None)
    import warnings
    warnings.filterwarnings("ignore")
    job = json.loads(sys.stdin.read())
    import numpy as np
    np.seterr(all="ignore")
    import dataiter as di
    assert di.__file__.startswith(repo + "/")
    if not di.USE_NUMBA:
        print(json.dumps({"error": "Numba not available in the real build"})); return
    from vf import realcodec
    res = {"numba": True}
    # the accelerated run comes first in this process: kernels are compiled in the order of the steps
    res["on"] = run_steps(di, realcodec, job["steps"], True)
    res["off"] = run_steps(di, realcodec, job["steps"], False)
    print(json.dumps(res))

if __name__ == "__main__":
    main()
