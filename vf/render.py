"""Token strings for symbolic text rendering (C20).

Symbolic text is carried as ordinary Python str values in which a symbolic piece is a private-use
placeholder  \\ue000<id>\\ue001  registered with a z3 width (BitVec64).  Because they are real strs,
" ".join, +, str.format, f-strings, zip, insert run natively in the real code.  util.ulen is the real
function over a wcswidth stub that adds the real wcwidth of literal characters and the symbolic width
of tokens."""
import re

import z3

from . import symx
from .symx import SymBool, SymI64, SymF64

TOK = re.compile("(\\d+)")

class Registry:
    def __init__(self):
        self.widths = {}
    def new(self, width_expr, kind="cell"):
        i = len(self.widths)
        self.widths[i] = (width_expr, kind)
        return f"{i}"

REG = [None]

def reg():
    if REG[0] is None:
        raise symx.HarnessError("rendering token created outside a render context")
    return REG[0]

def BV(v):
    if isinstance(v, SymWidth): return v.e
    if isinstance(v, SymI64): return v.e
    if z3.is_expr(v): return v
    return z3.BitVecVal(int(v), 64)

class SymWidth:
    """an int-like display width / count with a symbolic value; deliberately without __index__,
    so that str cannot concretise it (" " * k goes through __rmul__)"""
    __slots__ = ("e",)
    def __init__(self, e): self.e = e if z3.is_expr(e) else z3.BitVecVal(int(e), 64)
    def __add__(self, o): return SymWidth(self.e + BV(o))
    __radd__ = __add__
    def __sub__(self, o): return SymWidth(self.e - BV(o))
    def __rsub__(self, o): return SymWidth(BV(o) - self.e)
    def __lt__(self, o): return SymBool(self.e < BV(o))
    def __le__(self, o): return SymBool(self.e <= BV(o))
    def __gt__(self, o): return SymBool(self.e > BV(o))
    def __ge__(self, o): return SymBool(self.e >= BV(o))
    def __eq__(self, o): return SymBool(self.e == BV(o))
    def __ne__(self, o): return SymBool(self.e != BV(o))
    def __hash__(self): return 0
    def __rmul__(self, s):
        if not isinstance(s, str): return NotImplemented
        import wcwidth
        w = wcwidth.wcswidth(s)
        k = z3.If(self.e > 0, self.e, z3.BitVecVal(0, 64)) * max(w, 0)
        return reg().new(z3.simplify(k), "pad")
    __mul__ = __rmul__
    def __repr__(self): return f"SymWidth({z3.simplify(self.e)})"

def width_of(s):
    """display width of a token string: int when there is no token, else SymWidth"""
    import wcwidth
    total = None; pos = 0; lit = 0
    for m in TOK.finditer(s):
        lit += max(wcwidth.wcswidth(s[pos:m.start()]), 0)
        w = reg().widths[int(m.group(1))][0]
        total = w if total is None else total + w
        pos = m.end()
    if total is None:
        return wcwidth.wcswidth(s)
    lit += max(wcwidth.wcswidth(s[pos:]), 0)
    return SymWidth(z3.simplify(total + lit))

class WcwidthStub:
    @staticmethod
    def wcswidth(s):
        return width_of(s)

def width_term(s):
    w = width_of(s)
    return w.e if isinstance(w, SymWidth) else z3.BitVecVal(max(w, 0), 64)

def cell_token(lo=1, hi=30):
    c = symx.ctx()
    w = z3.BitVec(c.name("w"), 64)
    c.assume(z3.And(w >= lo, w <= hi), note=f"a formatted number is a non-empty single-line text of display width {lo}..{hi}")
    return reg().new(w)

def fmt_hook(obj, spec):
    return cell_token()

class RenderContext:
    """installs the token registry, the wcswidth stub and the number-formatting hooks around a rendering call"""
    def __init__(self, util_module):
        self.util = util_module
    def __enter__(self):
        REG[0] = Registry()
        self._old_w = self.util.wcwidth
        self.util.wcwidth = WcwidthStub
        symx.FORMAT_HOOK[0] = fmt_hook
        self._i_fmt, self._i_str = SymI64.__format__, SymI64.__str__
        self._f_fmt, self._f_str = SymF64.__format__, SymF64.__str__
        SymI64.__format__ = lambda s, spec: cell_token()
        SymI64.__str__ = lambda s: cell_token()
        SymF64.__format__ = lambda s, spec: cell_token()
        SymF64.__str__ = lambda s: cell_token()
        return REG[0]
    def __exit__(self, *a):
        self.util.wcwidth = self._old_w
        symx.FORMAT_HOOK[0] = None
        SymI64.__format__, SymI64.__str__ = self._i_fmt, self._i_str
        SymF64.__format__, SymF64.__str__ = self._f_fmt, self._f_str
        return False
