"""CLI:  python -m vf.check C05 --tier quick|thorough        run the checks of one property
          python -m vf.check --replay replays/C05-xxxx.json    re-run one counterexample on the real build

Exit codes: 0 property held on everything explored (known findings printed as KNOWN-FINDING lines)
            1 reproduced violation(s) not listed in known_findings.json (VIOLATION lines printed)
            2 inconclusive (solver unknown, path budget, model gap, coverage goal missed)
            3 harness / model error (counterexample did not reproduce, model-vs-real mismatch)
"""
import argparse
import hashlib
import importlib
import json
import os
import sys
import time

HERE = os.path.dirname(os.path.dirname(os.path.abspath(__file__)))

def load_known():
    p = os.path.join(HERE, "known_findings.json")
    if not os.path.exists(p):
        return []
    return json.load(open(p)).get("findings", [])

def find_harness(name):
    """harnesses are looked up by name (worker processes, replays): one name must mean one configuration in both tiers"""
    prop = name.split(".")[0]
    mod = importlib.import_module("vf.harness." + prop.lower())
    found = []
    for tier in ("quick", "thorough"):
        for h in mod.harnesses(tier):
            if h.name == name:
                found.append(h)
    if not found:
        raise SystemExit(f"no harness named {name}")
    cfg = lambda h: {k: repr(v) for k, v in vars(h).items() if k != "inner"}
    for h in found[1:]:
        if cfg(h) != cfg(found[0]):
            from . import symx
            raise symx.HarnessError(f"harness name {name} stands for two different configurations (quick / thorough)")
    return found[0]

def sig(res):
    lab = res.get("cex_real_failing") or res.get("cex_failing") or ["?"]
    import re
    return re.sub(r"\d+", "#", lab[0])[:100]

def write_replay(prop, h, inputs, failing, real_out):
    os.makedirs(os.path.join(HERE, "replays"), exist_ok=True)
    body = {"property": prop, "harness": h.name, "op": h.opname, "inputs": inputs, "failing": failing,
            "observed": real_out,
            "how": "cd /verif && .venv/bin/python -m vf.check --replay <this file>   (runs the operation on the real "
                   "build with /venv/bin/python and re-evaluates the property on its concrete result)"}
    hh = hashlib.sha1(json.dumps([h.name, inputs], sort_keys=True).encode()).hexdigest()[:10]
    path = os.path.join("replays", f"{prop}-{hh}.json")
    json.dump(body, open(os.path.join(HERE, path), "w"), indent=1)
    return path

def do_replay(path):
    from . import env, run
    env.load()
    body = json.load(open(path))
    h = find_harness(body["harness"])
    rr = run.replay(body["op"], body["inputs"])
    holds, bad = run.concrete_verdict(h, body["inputs"], rr["out"])
    print("harness :", body["harness"])
    print("inputs  :", json.dumps(body["inputs"])[:2000])
    print("observed:", json.dumps(rr["out"])[:2000])
    if holds:
        print("property holds on this input (not reproduced)")
        return 0
    print("failing :", bad[:5])
    print(f"VIOLATION property={body['property']} replay={path}")
    return 1

def cross_check(xdir, limit=120):
    """re-decide a sample of the exported queries with /usr/bin/z3 (4.8.12) and cvc5; any disagreement with the
    verdict used by the check, or an (error line, makes the run inconclusive"""
    import glob, random, subprocess
    files = sorted(glob.glob(os.path.join(xdir, "*.smt2")))
    random.Random(0).shuffle(files)
    files = files[:limit]
    res = {"exported": len(files), "agree": 0, "disagree": 0, "undecided": 0, "errors": 0, "examples": [],
           "solvers": ["/usr/bin/z3 4.8.12 -T:30", "cvc5 --tlimit=30000"]}
    def run(cmd):
        try:
            p = subprocess.run(cmd, capture_output=True, text=True, timeout=45)
            out = (p.stdout + p.stderr).strip()
            if "(error" in out: return "error"
            first = out.splitlines()[0].strip() if out else "unknown"
            return first if first in ("sat", "unsat") else "unknown"
        except subprocess.TimeoutExpired:
            return "unknown"
    from concurrent.futures import ThreadPoolExecutor
    jobs = []
    with ThreadPoolExecutor(8) as ex:
        for f in files:
            want = f.rsplit("_", 1)[1].split(".")[0]
            jobs.append((f, want, ex.submit(run, ["/usr/bin/z3", "-T:30", f]), ex.submit(run, ["cvc5", "--tlimit=30000", f])))
        for f, want, a, b in jobs:
            for r in (a.result(), b.result()):
                if r == want: res["agree"] += 1
                elif r == "unknown": res["undecided"] += 1
                elif r == "error": res["errors"] += 1
                else:
                    res["disagree"] += 1; res["examples"].append([os.path.basename(f), want, r])
    return res

def main(argv=None):
    ap = argparse.ArgumentParser()
    ap.add_argument("prop", nargs="?")
    ap.add_argument("--tier", default=os.environ.get("VERIF_TIER", "quick"), choices=["quick", "thorough"])
    ap.add_argument("--replay")
    ap.add_argument("--only", default="", help="substring filter on harness names (development aid; no evidence written)")
    ap.add_argument("--procs", type=int, default=int(os.environ.get("VF_PROCS", "16")))
    ap.add_argument("--no-known", action="store_true", help="ignore known_findings.json (development aid)")
    a = ap.parse_args(argv)
    if a.replay:
        return do_replay(a.replay)
    prop = a.prop
    seed = int(os.environ.get("VERIF_SEED", "0") or 0)
    t0 = time.time()
    from . import env, run, symx
    env.load()
    numba_cache = None
    if prop == "C08":
        # quick tier: one JIT cache directory shared by all witness replays of this run (outside /repo and /verif,
        # removed at the end); thorough tier and the order harness use a fresh cache per replay
        import tempfile, atexit, shutil
        if a.tier == "quick":
            numba_cache = tempfile.mkdtemp(prefix="vf_numba_shared_")
            os.environ["VF_NUMBA_SHARED_CACHE"] = numba_cache
            atexit.register(lambda: shutil.rmtree(numba_cache, ignore_errors=True))
    xdir = None
    if a.tier == "thorough" and not a.only:
        import tempfile, atexit, shutil
        xdir = tempfile.mkdtemp(prefix="vf_xcheck_")
        os.environ["VF_XCHECK_DIR"] = xdir
        atexit.register(lambda: shutil.rmtree(xdir, ignore_errors=True))
    mod = importlib.import_module("vf.harness." + prop.lower())
    hs = [h for h in mod.harnesses(a.tier) if a.only in h.name]
    if len({h.name for h in hs}) != len(hs):
        raise SystemExit("harness names are not unique: " + str(sorted(n for n in {h.name for h in hs} if [x.name for x in hs].count(n) > 1)))
    if seed:
        import random
        random.Random(seed).shuffle(hs)
    known = [] if a.no_known else [k for k in load_known() if k["property"] == prop and k.get("status") == "known"]
    known_regions = {k["region"] for k in known if k.get("region")}
    tot = dict(paths=0, decisions=0, queries=0, solver_s=0.0, obligations=0, discharged=0, sat=0, sat_reproduced=0,
               sat_not_reproduced=0, unknown=0, witnesses=0, witnesses_conform=0, known_hits=0)
    inconclusive = []
    model_errors = []
    violations = {}      # signature -> record
    known_seen = {}
    cov = set()
    samples = []
    per_h = []
    assumptions = set()
    budget = float(os.environ.get("VF_HARNESS_DEADLINE_S", "900" if a.tier == "quick" else "7200"))
    for h in hs:
        th = time.time()
        r = run.run_harness(h, known_regions, procs=a.procs, deadline_s=budget)
        res = r["results"]
        cov |= r["coverage"]
        hstat = dict(name=h.name, paths=len(res), wall_s=round(r["wall"], 2), proved=0, violations=0, known=0,
                     bounds=h.bounds, symbolic=list(h.symbolic), choices=list(h.choice_dims))
        if not r["complete"]:
            inconclusive.append(f"{h.name}: exploration incomplete (budget)")
        for x in res:
            tot["paths"] += 1
            tot["decisions"] += x.get("depth", 0)
            tot["queries"] += x.get("nq", 0)
            tot["solver_s"] += x.get("tq", 0.0)
            for s in x.get("assumptions", []): assumptions.add(s)
            if x["status"] != "ok":
                (model_errors if x["status"] == "harness_error" else inconclusive).append(
                    f"{h.name}: {x['status']}: {x.get('detail', '')[:300]} {x.get('tb', '')[-600:] if x['status'] == 'harness_error' else ''}")
                continue
            tot["obligations"] += x.get("obligations", 0)
            if x.get("truncated"):
                inconclusive.append(f"{h.name}: a symbolic value had to be made concrete (the real code calls into C with it) and has more than "
                                    f"{symx.CONCRETISE_MAX} possible values: enumeration cut at {x['truncated'][0]} {x['choices']}")
            if x.get("unknown_queries"):
                tot["unknown"] += x["unknown_queries"]
                inconclusive.append(f"{h.name}: solver returned unknown on {x['unknown_queries']} query(ies) {x['choices']}")
            v = x["verdict"]
            if v == "unknown":
                inconclusive.append(f"{h.name}: obligation undecided {x['choices']}")
            if v == "proved":
                tot["discharged"] += x.get("obligations", 0)
                hstat["proved"] += 1
            if "witness_conforms" in x:
                tot["witnesses"] += 1
                observed_only = getattr(h, "observed_only", False)
                if x.get("witness_real_holds") is False and not x.get("witness_in_region") and v != "violation":
                    # the real build violates the property on this path's witness: a reproduced violation by
                    # construction (for observed-only harnesses this is the only way a violation can show)
                    tot["sat_reproduced"] += 1
                    hstat["violations"] += 1
                    import re as _re
                    k = (h.name.rsplit(".n", 1)[0], _re.sub(r"\d+", "#", (x.get("witness_real_failing") or ["?"])[0])[:100])
                    if k not in violations:
                        violations[k] = dict(h=h, res=dict(x, cex=x["witness"], cex_real_failing=x.get("witness_real_failing"),
                                                           cex_real_out=x.get("witness_real_out")))
                if x["witness_conforms"]:
                    tot["witnesses_conform"] += 1
                elif x["witness_conforms"] is None:
                    tot["witnesses_unvalidated"] = tot.get("witnesses_unvalidated", 0) + 1
                elif observed_only:
                    tot["witnesses_observed_only_mismatch"] = tot.get("witnesses_observed_only_mismatch", 0) + 1
                else:
                    model_errors.append(f"{h.name}: model and real build disagree on witness {x['choices']}\n"
                                        f"    inputs: {json.dumps(x['witness'])[:600]}\n    real  : {json.dumps(x.get('witness_real'))[:600]}\n"
                                        f"    model : {json.dumps(x.get('witness_pred'))[:600]}")
                if x.get("witness_real_holds") is False and x["witness_conforms"] and v == "proved" and not x.get("witness_in_region"):
                    model_errors.append(f"{h.name}: concrete spec fails on a witness although model and real build agree and the path was proved {x['choices']} {x.get('witness_real_failing')}")
            for pr in x.get("probes", []):
                tot["probes"] = tot.get("probes", 0) + 1
                if pr["holds"]: continue
                if pr.get("in_region"):
                    tot["probes_in_known_region"] = tot.get("probes_in_known_region", 0) + 1
                    for reg in pr["in_region"]:
                        known_seen.setdefault(reg, {"region": pr["in_region"], "cex": pr["inputs"], "failing": pr["failing"], "reproduced": True})
                    continue
                if os.environ.get("VF_VERBOSE_PROBES"):
                    print(f"  probe failure {h.name} [{pr['label']}] {x['choices']} {pr.get('failing')}", flush=True)
                # the real build violates the property on a probe input: reproduced by construction
                tot["sat_reproduced"] += 1
                hstat["violations"] += 1
                import re as _re
                k = (h.name.rsplit(".n", 1)[0], _re.sub(r"\d+", "#", (pr.get("failing") or ["?"])[0])[:100])
                if k not in violations:
                    violations[k] = dict(h=h, res=dict(x, cex=pr["inputs"], cex_real_failing=pr.get("failing"), cex_real_out=pr.get("out")))
            if v == "violation":
                tot["sat"] += 1
                if x.get("cex_reproduced"):
                    tot["sat_reproduced"] += 1
                    hstat["violations"] += 1
                    k = (h.name.rsplit(".n", 1)[0], sig(x))
                    if k not in violations:
                        violations[k] = dict(h=h, res=x)
                elif "cex_reproduced" in x:
                    tot["sat_not_reproduced"] += 1
                    model_errors.append(f"{h.name}: counterexample does not reproduce on the real build {x['choices']} "
                                        f"{x.get('cex_failing', [])[:2]}\n    inputs: {json.dumps(x['cex'])[:600]}\n"
                                        f"    real  : {json.dumps(x.get('cex_real_out'))[:600]}\n    model : {json.dumps(x.get('cex_pred'))[:600]}")
            if "known" in x:
                tot["known_hits"] += 1
                hstat["known"] += 1
                for reg in x["known"]["region"]:
                    known_seen.setdefault(reg, x["known"])
            if len(samples) < 6 and (len(samples) < 3 or v != "proved"):
                samples.append({"harness": h.name, "choices": x["choices"], "decisions": x["depth"], "queries": x["nq"],
                                "verdict": v, "witness_input": x.get("witness"), "witness_conforms": x.get("witness_conforms")})
        per_h.append(hstat)
        print(f"[{prop}] {h.name}: paths={len(res)} proved={hstat['proved']} violations={hstat['violations']} "
              f"known={hstat['known']} wall={hstat['wall_s']}s", flush=True)
    # coverage goals
    funcs = sorted({f"{fn}:{qn}" for fn, _, qn in cov})
    for h in hs:
        for g in h.goals:
            if not any(f == g or f.startswith(g + ".") for f in funcs):
                inconclusive.append(f"{h.name}: coverage goal {g} not executed by any path (vacuous run)")
    # known findings: replay the pinned inputs
    lines = []
    for k in known:
        pin = k.get("pinned")
        still = None
        if pin:
            try:
                hh = find_harness(pin["harness"])
                rr = run.replay(hh.opname, pin["inputs"])
                holds, bad = run.concrete_verdict(hh, pin["inputs"], rr["out"])
                still = not holds
            except BaseException as e:
                model_errors.append(f"known finding {k.get('key')}: pinned input cannot be replayed: {type(e).__name__}: {e}")
        if still or (still is None and k.get("region") in known_seen):
            lines.append(f"KNOWN-FINDING: property={prop} {k['what']}")
        elif still is False:
            print(f"note: known finding '{k.get('key')}' no longer reproduces on its pinned input")
    vio_lines = []
    for (hn, s), rec in violations.items():
        x = rec["res"]
        path = write_replay(prop, rec["h"], x["cex"], x.get("cex_real_failing") or x.get("cex_failing"), x.get("cex_real_out"))
        vio_lines.append((path, hn, s, x))
    xres = cross_check(xdir) if xdir else None
    if xres and xres["disagree"]:
        inconclusive.append(f"cross-solver disagreement on {xres['disagree']} exported query(ies): {xres['examples'][:2]}")
    wall = time.time() - t0
    ev = {"property_id": prop, "tier": a.tier, "seed": seed, "level": "model_checking",
          "coverage": {"states": tot["paths"], "transitions": tot["decisions"],
                       "traces_validated_against_impl": tot["witnesses_conform"], "samples": samples,
                       "explanation": "states = symbolic paths completed; transitions = solver-resolved decisions; "
                                      "traces_validated_against_impl = path witnesses replayed on the real build "
                                      "(/venv/bin/python, real NumPy) with a result identical to the model's prediction",
                       "obligations": tot["obligations"], "discharged": tot["discharged"],
                       "sat": tot["sat"], "sat_reproduced": tot["sat_reproduced"], "sat_not_reproduced": tot["sat_not_reproduced"],
                       "known_region_hits": tot["known_hits"], "unknown": tot["unknown"], "queries": tot["queries"],
                       "solver_s": round(tot["solver_s"], 2), "witnesses_replayed": tot["witnesses"],
                       "probe_inputs_observed_on_real_build": tot.get("probes", 0), "probe_failures_in_known_regions": tot.get("probes_in_known_region", 0),
                       "witnesses_not_comparable_uninterpreted_reducer": tot.get("witnesses_unvalidated", 0),
                       "functions_encoded": funcs, "harnesses": per_h, "cross_solver": xres,
                       "exhaustive": not inconclusive and not model_errors,
                       "source_sha256": env.source_hashes(),
                       "solver": "z3 " + __import__("z3").get_version_string() +
                                 " (simplify;fpa2bv;simplify;bit-blast;sat -> qffpbv -> default), per-query timeout "
                                 f"{symx.QUERY_TIMEOUT_MS} ms"},
          "assumptions": sorted(assumptions) + ["NumPy is replaced by the symnp model (vf/symnp.py); every explored path's "
                                                "witness is cross-checked against the real NumPy build",
                                                "claims are bounded: see coverage.harnesses[*].bounds"],
          "wall_s": round(wall, 2), "violations": len(vio_lines), "inconclusive": inconclusive[:20],
          "model_errors": model_errors[:20], "known_findings": lines}
    if not a.only:
        evdir = os.environ.get("VF_EVIDENCE_DIR") or os.path.join(HERE, "evidence")     # override: development aid (seed tests)
        os.makedirs(evdir, exist_ok=True)
        json.dump(ev, open(os.path.join(evdir, f"{prop}.json"), "w"), indent=1)
    for l in lines: print(l)
    print(f"[{prop}] tier={a.tier} harnesses={len(hs)} paths={tot['paths']} queries={tot['queries']} "
          f"solver={tot['solver_s']:.0f}s obligations={tot['obligations']} discharged={tot['discharged']} "
          f"sat={tot['sat']} reproduced={tot['sat_reproduced']} known_hits={tot['known_hits']} "
          f"witnesses={tot['witnesses_conform']}/{tot['witnesses']} wall={wall:.0f}s")
    if vio_lines:
        # a violation that reproduces on the real build is real whatever else went wrong
        for m in model_errors[:5]: print("MODEL-ERROR", m)
        for path, hn, s, x in vio_lines:
            print(f"  violation in {hn}: {s}   choices={x['choices']}")
            print(f"VIOLATION property={prop} replay={path}")
        return 1
    if model_errors:
        for m in model_errors[:10]: print("MODEL-ERROR", m)
        print(f"INCONCLUSIVE property={prop} reason=harness/model error ({len(model_errors)})")
        return 3
    if inconclusive:
        for m in inconclusive[:10]: print("INCONCLUSIVE-DETAIL", m)
        print(f"INCONCLUSIVE property={prop} reason={inconclusive[0][:200]}")
        return 2
    return 0

if __name__ == "__main__":
    sys.exit(main())
