"""Contract stubs for the C environment of the symbolic process (each one is listed in the evidence assumptions).

json.loads / json.load   return the harness-built (symbolic) JSON value for a token string / stub file
json.dumps / JSONEncoder  return an opaque token that decodes (by contract) to the same value
util.xopen                a path maps to a stub file object (codec, encoding, payload)
csv.reader                yields the harness-built rows
"""
import contextlib

class Token(str):
    """a str standing for serialised text; carries the value it decodes to"""
    def __new__(cls, text, value=None):
        s = str.__new__(cls, text)
        s.value = value
        return s

class StubFile:
    def __init__(self, payload=None, mode="r"):
        self.payload = payload
        self.chunks = []
        self.mode = mode
    def read(self): return Token("<file contents>", self.payload)
    def write(self, s): self.chunks.append(s); return len(s)
    def __enter__(self): return self
    def __exit__(self, *a): return False
    def __iter__(self): return iter(())

@contextlib.contextmanager
def patched(obj, name, value):
    old = getattr(obj, name)
    setattr(obj, name, value)
    try:
        yield
    finally:
        setattr(obj, name, old)

class JsonStub:
    """stands in for the json module inside one dataiter module"""
    def __init__(self, real_json, decode_to):
        self._real = real_json
        self._value = decode_to
        self.dumped = []
        self.JSONEncoder = real_json.JSONEncoder
    def loads(self, s, **kw):
        return _fresh(self._value)
    def load(self, f, **kw):
        return _fresh(self._value)
    def dumps(self, value, **kw):
        self.dumped.append((value, kw))
        return Token(f"<json#{len(self.dumped) - 1}>", value)

def _fresh(v):
    """a new container structure per call, as a real decoder gives (leaves shared)"""
    if isinstance(v, list): return [_fresh(x) for x in v]
    if isinstance(v, dict): return {k: _fresh(x) for k, x in v.items()}
    return v
