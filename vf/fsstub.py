"""Contract model of the file system and of the C serializers for C12 (symbolic process only).

A path maps to (codec, binary/text, encoding, payload).  Writers store an opaque payload that carries the value and
the options it was written with; readers return that value iff they are used consistently (same codec, same text
encoding, same delimiter / header options) and fail otherwise.  What is decided on top of this is dataiter's own
plumbing: suffix -> codec, and the consistency of the options on the write and the read side."""
import contextlib
import copy

class Blob:
    def __init__(self, kind, value, **opts):
        self.kind = kind; self.value = value; self.opts = opts
    def __repr__(self): return f"Blob({self.kind},{self.opts})"

class File:
    def __init__(self, codec, binary, encoding):
        self.codec = codec; self.binary = binary; self.encoding = encoding; self.chunks = []

class Handle:
    def __init__(self, f, writing, binary, encoding, translate=False):
        self.f = f; self.writing = writing; self.binary = binary; self.encoding = encoding
        self.translate = translate        # text mode without newline="": universal newlines on reading
    def write(self, x):
        if isinstance(x, EncodedPayload):
            if not self.binary: raise TypeError("write() argument must be str, not bytes")
            self.f.text_encoding = x.encoding        # bytes that are text in that encoding
            x = x.text
        self.f.chunks.append(x); return 1
    def read(self):
        return TextPayload(self.f.chunks, self.translate) if not self.binary else list(self.f.chunks)
    def __enter__(self): return self
    def __exit__(self, *a): return False
    # file-like protocol bits used by the fake Arrow reader/writer
    def payload(self): return list(self.f.chunks)

class TextPayload(str):
    """text read from a stub file: carries the chunks it was made of"""
    def __new__(cls, chunks, translated=False):
        s = str.__new__(cls, "<text payload>"); s.chunks = list(chunks)
        s.translated = bool(translated) or any(getattr(c, "translated", False) for c in chunks)
        return s

    def encode(self, encoding="utf-8", errors="strict"):
        return EncodedPayload(self, encoding)

class EncodedPayload:
    """the bytes a text payload encodes to: the text and the encoding (str.encode writes a BOM where the encoding has one)"""
    def __init__(self, text, encoding): self.text = text; self.encoding = encoding

def universal_newlines(v):
    """a text value after universal-newline translation (CR and CR LF -> LF)"""
    from . import symx
    if isinstance(v, symx.SymStr): return symx.SymStr(v.c.universal_newlines())
    if type(v) is str: return v.replace("\r\n", "\n").replace("\r", "\n")
    return v

class FS:
    def __init__(self):
        self.files = {}
        self.log = []
    def opener(self, codec):
        def _open(path, mode="r", **kwargs):
            path = str(path)
            binary = "b" in mode
            enc = None if binary else kwargs.get("encoding")
            if "w" in mode:
                f = File(codec, binary, enc); self.files[path] = f
                # CPython: a text-mode wrapper on a stream that cannot seek (BZ2File / LZMAFile open for writing) starts its
                # UTF-16 / UTF-32 encoder past the byte-order mark, so the file has none and cannot be decoded as "utf-16" again
                # (GzipFile and plain files can seek and get the mark); observed on the real build, CPython 3.12
                f.nobom = (not binary) and codec in ("bz2", "xz") and _norm(enc or "utf-8") in ("utf-16", "utf-32")
                self.log.append(("w", path, codec, binary, enc))
                return Handle(f, True, binary, enc)
            if path not in self.files:
                raise FileNotFoundError(2, "No such file or directory", path)
            f = self.files[path]
            translate = not binary and kwargs.get("newline") is None
            self.log.append(("r", path, codec, binary, enc))
            if f.codec != codec:
                raise OSError(f"file written with codec {f.codec!r} read with codec {codec!r}")
            if not binary and not f.binary and f.encoding != enc:
                raise UnicodeDecodeError(enc or "utf-8", b"", 0, 1, f"file written as {f.encoding!r} read as {enc!r}")
            if not binary and getattr(f, "nobom", False):
                raise UnicodeError(f"{_norm(enc).upper()} stream does not start with BOM")
            return Handle(f, False, binary, enc, translate)
        return _open

def codec_of(path):
    p = str(path)
    return "bz2" if p.endswith(".bz2") else "gz" if p.endswith(".gz") else "xz" if p.endswith(".xz") else "none"

class _Mod:
    def __init__(self, **k): self.__dict__.update(k)

# ---------------------------------------------------------------- fake pyarrow (csv / parquet / table)

class FakeColumn:
    def __init__(self, values): self.values = values
class FakeTable:
    def __init__(self, columns, names):
        self.cols = list(columns); self.column_names = list(names)
    @property
    def columns(self): return self.cols
    @property
    def shape(self): return (len(self.cols[0].arr) if self.cols else 0, len(self.cols))
    def rename_columns(self, names): return FakeTable(self.cols, names)

def install(fs, W, util, df_mod, lod_mod):
    """returns a context manager that installs all stubs"""
    import sys, types
    from . import stubs, symnp
    from .ops import _FakeSeries
    di = W.di
    st = contextlib.ExitStack()
    st.enter_context(stubs.patched(util, "bz2", _Mod(open=fs.opener("bz2"))))
    st.enter_context(stubs.patched(util, "gzip", _Mod(open=fs.opener("gz"))))
    st.enter_context(stubs.patched(util, "lzma", _Mod(open=fs.opener("xz"))))
    util.open = fs.opener("none"); st.callback(lambda: delattr(util, "open"))
    st.enter_context(stubs.patched(util, "makedirs_for_file", lambda p: None))
    # pickle: dump stores the object, load returns an equal copy
    def p_dump(obj, f, protocol=None): f.write(Blob("pickle", obj))
    def p_load(f):
        chunks = f.read()
        if len(chunks) != 1 or not isinstance(chunks[0], Blob) or chunks[0].kind != "pickle":
            raise ValueError("not a pickle payload")
        return _copy(chunks[0].value)
    pk = _Mod(dump=p_dump, load=p_load, HIGHEST_PROTOCOL=5)
    st.enter_context(stubs.patched(df_mod, "pickle", pk)); st.enter_context(stubs.patched(lod_mod, "pickle", pk))
    # json: iterencode / dumps give a blob, loads returns the value
    class Enc:
        def __init__(self, **kw): self.kw = kw
        def iterencode(self, value): yield Blob("json", value)
    def j_loads(text, **kw):
        chunks = [c for c in getattr(text, "chunks", []) if isinstance(c, Blob)]
        if len(chunks) != 1 or chunks[0].kind != "json": raise ValueError("Expecting value")
        return _copy_json(chunks[0].value)
    js = _Mod(JSONEncoder=Enc, loads=j_loads, dumps=lambda v, **kw: Blob("json", v))
    st.enter_context(stubs.patched(lod_mod, "json", js)); st.enter_context(stubs.patched(df_mod, "json", js))
    # csv module of the standard library (ListOfDicts)
    class DictWriter:
        def __init__(self, f, keys, dialect=None, delimiter=",", quoting=None):
            self.f = f; self.keys = keys; self.rows = []; self.header = False; self.delimiter = delimiter
            self.blob = Blob("csvtext", self, delimiter=delimiter); f.write(self.blob)
        def writeheader(self): self.header = True
        def writerow(self, item): self.rows.append([item.get(k) for k in self.keys])
    def reader(f, dialect=None, delimiter=","):
        chunks = f.f.chunks if hasattr(f, "f") else []
        blobs = [c for c in chunks if isinstance(c, Blob) and c.kind == "csvtext"]
        if len(blobs) != 1: raise ValueError("not csv")
        w = blobs[0].value
        if blobs[0].opts["delimiter"] is not delimiter and blobs[0].opts["delimiter"] != delimiter:
            return iter([["<garbled by a different delimiter>"] for _ in w.rows])
        rows = ([list(w.keys)] if w.header else []) + [["" if v is None else v for v in r] for r in w.rows]
        if getattr(f, "translate", False):
            rows = [[universal_newlines(v) for v in r] for r in rows]
        return iter(rows)
    st.enter_context(stubs.patched(lod_mod, "csv", _Mod(DictWriter=DictWriter, reader=reader, QUOTE_MINIMAL=0)))
    # pyarrow
    pa = types.ModuleType("pyarrow"); pacsv = types.ModuleType("pyarrow.csv"); pq = types.ModuleType("pyarrow.parquet")
    def pa_array(lst): return list(lst)
    def pa_table(data, names):
        cols = []
        for values in data:
            arr = W.np.array([v for v in values], object) if False else None
            cols.append(values)
        return ("table", [list(v) for v in data], list(names))
    pa.array = pa_array; pa.table = pa_table
    class Opts:
        def __init__(self, **kw): self.__dict__.update(kw)
    pacsv.WriteOptions = Opts; pacsv.ReadOptions = Opts; pacsv.ParseOptions = Opts; pacsv.ConvertOptions = Opts
    def write_csv(table, sink, write_options=None):
        blob = Blob("arrowcsv", table, delimiter=write_options.delimiter, header=write_options.include_header, text_encoding="utf-8")
        if isinstance(sink, str):
            f = File("none", True, None); f.chunks.append(blob); fs.files[sink] = f; fs.log.append(("w", sink, "none", True, None))
        else:
            sink.write(blob)
    def read_csv(source, read_options=None, parse_options=None, convert_options=None):
        if isinstance(source, str):
            if source not in fs.files: raise FileNotFoundError(source)
            f = fs.files[source]
            want = {"gz": "gz", "bz2": "bz2"}.get(codec_of(source), "none")     # Arrow detects .gz / .bz2 by suffix
            if f.codec != want: raise OSError("decompression failed")
            chunks = f.chunks
        else:
            chunks = source.payload()
        flat = []; translated = False
        for c in chunks:
            translated = translated or getattr(c, "translated", False)
            flat.extend(c.chunks if isinstance(c, TextPayload) else [c])
        blobs = [c for c in flat if isinstance(c, Blob)]
        if len(blobs) != 1 or blobs[0].kind != "arrowcsv": raise ValueError("CSV parse error")
        b = blobs[0]
        srcfile = getattr(source, "f", None)
        fenc = (srcfile.encoding if srcfile is not None and not srcfile.binary else
                getattr(srcfile, "text_encoding", "utf-8"))     # Arrow itself writes UTF-8; bytes written by hand carry their encoding
        if getattr(srcfile, "nobom", False): raise UnicodeError(f"{_norm(fenc).upper()} stream does not start with BOM")
        if _norm(fenc) != _norm(read_options.encoding): raise UnicodeDecodeError(read_options.encoding, b"", 0, 1, "wrong encoding")
        if b.opts["delimiter"] is not parse_options.delimiter and b.opts["delimiter"] != parse_options.delimiter:
            raise ValueError("CSV parse error: delimiter mismatch")
        if bool(read_options.autogenerate_column_names) == bool(b.opts["header"]):
            raise ValueError("CSV header option used inconsistently")
        _, data, names = b.value
        if translated:
            # the CSV text went through a text-mode file object on its way (re-encoding): newlines inside values changed
            data = [[universal_newlines(v) for v in col] for col in data]
        return _mk_table(W, data, names if b.opts["header"] else None, convert_options.include_columns)
    pacsv.write_csv = write_csv; pacsv.read_csv = read_csv
    def pq_write(table, path, **kw):
        f = File("none", True, None); f.chunks.append(Blob("parquet", table)); fs.files[str(path)] = f; fs.log.append(("w", str(path), "none", True, None))
    def pq_read(path, columns=None):
        f = fs.files[str(path)]
        _, data, names = f.chunks[0].value
        return _mk_table(W, data, names, columns or [])
    pq.write_table = pq_write; pq.read_table = pq_read
    pa.csv = pacsv; pa.parquet = pq
    for name, mod in (("pyarrow", pa), ("pyarrow.csv", pacsv), ("pyarrow.parquet", pq)):
        old = sys.modules.get(name)
        sys.modules[name] = mod
        st.callback(lambda n=name, o=old: sys.modules.__setitem__(n, o) if o is not None else sys.modules.pop(n, None))
    # NumPy npz
    def savez(path, **arrays):
        p = str(path) if str(path).endswith(".npz") else str(path) + ".npz"      # np.savez appends .npz
        f = File("zip", True, None); f.chunks.append(Blob("npz", {k: v.copy() for k, v in arrays.items()})); fs.files[p] = f
        fs.log.append(("w", p, "zip", True, None))
    class Npz(dict):
        def __enter__(self): return self
        def __exit__(self, *a): return False
    def load(path, allow_pickle=False):
        if str(path) not in fs.files: raise FileNotFoundError(2, "No such file or directory", str(path))
        return Npz({k: v.copy() for k, v in fs.files[str(path)].chunks[0].value.items()})
    st.enter_context(stubs.patched(symnp, "savez", savez)); st.enter_context(stubs.patched(symnp, "savez_compressed", savez))
    st.enter_context(stubs.patched(symnp, "load", load))
    return st

def _norm(enc):
    import codecs
    try: return codecs.lookup(enc).name
    except Exception: return enc

def _mk_table(W, data, names, include):
    from .ops import _FakeSeries, _FakeArrow
    if names is None:
        names = [f"f{i}" for i in range(len(data))]
    cols = {}
    np = W.np
    pairs = list(zip(names, data))
    if include:
        # pyarrow: "only these columns will be included, in this order"; a requested name that is not there is an error
        have = dict(pairs)
        for nm in include:
            if nm not in have: raise KeyError(f"Column '{nm}' in include_columns does not exist")
        pairs = [(nm, have[nm]) for nm in include]
    for nm, values in pairs:
        vals = list(values)
        present = [v for v in vals if v is not None]
        tn = {type(v).__name__ for v in present}
        isnull = [v is None for v in vals]
        if present and tn <= {"SymF64", "SymPyFloat", "float"}:
            arr = np.array([float("nan") if v is None else v for v in vals], float)
            mask = np.array(isnull, bool) | np.isnan(arr)
        elif present and tn <= {"SymI64", "SymPyInt", "int"}:
            if any(isnull):
                arr = np.array([float("nan") if v is None else v for v in vals], float); mask = np.array(isnull, bool)
            else:
                arr = np.array(vals, int); mask = np.array(isnull, bool)
        elif present and tn <= {"SymBool", "SymPyBool", "bool"} and not any(isnull):
            arr = np.array(vals, bool); mask = np.array(isnull, bool)
        elif present and tn <= {"SymDT"}:
            arr = np.array(vals, present[0].dtype) if not any(isnull) else np.array([np.datetime64("NaT") if v is None else v for v in vals], present[0].dtype)
            mask = np.isnat(arr)
        elif present and tn <= {"SymTD"}:
            # duration columns come back as timedelta64 with NaT for nulls
            dt = f"timedelta64[{present[0].unit}]"
            arr = np.array([np.timedelta64("NaT") if v is None else v for v in vals], dt)
            mask = np.isnat(arr)
        else:
            arr = np.array(vals, object); mask = np.array(isnull, bool)
        cols[nm] = _FakeSeries(W, arr, mask)
    t = _FakeArrow(cols)
    t.shape = (len(data[0]) if data else 0, len(cols))
    t.rename_columns = lambda new: _renamed(t, new)
    return t

def _renamed(t, new):
    from .ops import _FakeArrow
    r = _FakeArrow(dict(zip(new, t.columns)))
    r.shape = t.shape
    return r

def _copy(v):
    if isinstance(v, dict): return {k: _copy(x) for k, x in v.items()}
    if isinstance(v, list): return [_copy(x) for x in v]
    if hasattr(v, "copy") and hasattr(v, "dtype"): return v.copy()
    return v

def _copy_json(v):
    if isinstance(v, dict): return {k: _copy_json(x) for k, x in v.items()}
    if isinstance(v, (list, tuple)): return [_copy_json(x) for x in v]
    return v
