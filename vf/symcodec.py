"""Symbolic-side codec: trees <-> live symbolic objects, trees <-> JSON under a model."""
import datetime as _dtm
import struct

import z3

from . import symx, symnp
from .symx import (F64, INT64_MIN, StrCell, SymBool, SymDT, SymF64, SymI64, SymPyFloat, SymPyInt, SymStr, SymTD)
from .tree import Arr, Frame, LoD, Opaque, Raised, NpScalar, NAN_HEX, dtype_kind, dtype_unit

# ------------------------------------------------------------------ dtype strings

def dtype_str(dt):
    k = dt.kind
    if k == "T": return "string"
    if k == "U": return f"<U{dt.width}"
    return str(dt)

def dtype_obj(s):
    if s == "string":
        return symnp.StringDType(na_object="")
    return symnp.dtype(s)

# ------------------------------------------------------------------ tree -> live

def _klass(name):
    from . import env
    di = env.load()
    return {"ndarray": symnp.ndarray, "Vector": di.Vector, "DataFrameColumn": di.DataFrameColumn}[name]

def materialise(t):
    from . import env
    di = env.load()
    if isinstance(t, Arr):
        cells = [materialise_obj(c) if t.dtype == "object" else c for c in t.cells]
        return symnp.ndarray._make(cells, dtype_obj(t.dtype), _klass(t.cls))
    if isinstance(t, Frame):
        cls = {"DataFrame": di.DataFrame, "GeoJSON": di.GeoJSON}[t.cls]
        f = cls(**{k: materialise(v) for k, v in t.cols.items()})
        if t.group:
            f.group_by(*t.group)
        for k, v in t.attrs.items():
            setattr(f, k, materialise(v))
        return f
    if isinstance(t, LoD):
        lod = di.ListOfDicts([{k: materialise(v) for k, v in item} for item in t.items])
        if t.group: lod.group_by(*t.group)
        return lod
    if isinstance(t, list): return [materialise(x) for x in t]
    if isinstance(t, tuple): return tuple(materialise(x) for x in t)
    if isinstance(t, dict): return {k: materialise(v) for k, v in t.items()}
    if isinstance(t, NpScalar): return t.value
    return t

def materialise_obj(c):
    return materialise(c)

# ------------------------------------------------------------------ live -> tree

def norm(x):
    from . import env
    di = env.load()
    if isinstance(x, symnp.ndarray):
        if x.ndim != 1:
            return Arr("ndim%d" % x.ndim, [], type(x).__name__)
        cells = x._cells()
        dt = dtype_str(x.dtype)
        if dt == "object":
            cells = [norm(c) for c in cells]
        return Arr(dt, cells, type(x).__name__)
    if isinstance(x, di.DataFrame):
        attrs = {}
        if isinstance(x, di.GeoJSON):
            attrs["metadata"] = norm(dict(x.metadata))
        return Frame({k: norm(v) for k, v in dict.items(x)}, type(x).__name__,
                     getattr(x, "_group_colnames", ()), attrs)
    if isinstance(x, di.ListOfDicts):
        return LoD([[(k, norm(v)) for k, v in item.items()] for item in x], type(x).__name__,
                   list.__getattribute__(x, "_obsolete"), list.__getattribute__(x, "_group_keys"),
                   sorted({type(i).__name__ for i in x}))
    if isinstance(x, list): return [norm(v) for v in x]
    if isinstance(x, tuple): return tuple(norm(v) for v in x)
    if isinstance(x, dict): return {k: norm(v) for k, v in x.items()}
    return x

# ------------------------------------------------------------------ tree -> JSON (under a model)

def _ev(m, e):
    return m.eval(e, model_completion=True) if m is not None else z3.simplify(e)

def _has_uf(e):
    """does the term depend on the result of an uninterpreted NumPy reducer?"""
    seen = set(); stack = [e]
    while stack:
        t = stack.pop()
        if t.get_id() in seen: continue
        seen.add(t.get_id())
        if z3.is_const(t) and t.decl().kind() == z3.Z3_OP_UNINTERPRETED and t.decl().name().startswith(("uf_", "ufdt_")):
            return True
        stack.extend(t.children())
    return False

UF_WILDCARD = "*uf*"

def _f_hex(m, e):
    if m is not None and not z3.is_fp_value(e) and _has_uf(e):
        return UF_WILDCARD
    v = _ev(m, e)
    if z3.is_fp(v) and not z3.is_fprm(v):
        bv = z3.simplify(z3.fpToIEEEBV(v))
        if z3.is_bv_value(bv):
            h = "%016x" % bv.as_long()
            if (bv.as_long() & 0x7ff0000000000000) == 0x7ff0000000000000 and (bv.as_long() & 0xfffffffffffff):
                return NAN_HEX
            return h
        if z3.is_true(z3.simplify(z3.fpIsNaN(v))):
            return NAN_HEX
    raise symx.HarnessError(f"cannot evaluate float {e} -> {v}")

def _i_val(m, e):
    if m is not None and not z3.is_bv_value(e) and _has_uf(e):
        return UF_WILDCARD
    v = _ev(m, e)
    if not z3.is_bv_value(v): raise symx.HarnessError(f"cannot evaluate int {e}")
    return v.as_signed_long()

def _b_val(m, e):
    v = _ev(m, e)
    if z3.is_true(v): return True
    if z3.is_false(v): return False
    raise symx.HarnessError(f"cannot evaluate bool {e}")

def _s_val(m, c):
    if type(c).__name__ in ("StrfToken", "ReToken", "StrFnToken", "IsoToken"): return UF_WILDCARD
    if isinstance(c, SymStr): c = c.c
    if isinstance(c, str): return UF_WILDCARD if c.startswith("\ue100iso") else c
    if m is None:
        class _M:
            @staticmethod
            def eval(e, model_completion=True): return z3.simplify(e)
        return c.concrete(_M)
    return c.concrete(m)

def enc_cell(c, kind, m):
    if kind == "f": return _f_hex(m, c)
    if kind in "iMm": return _i_val(m, c)
    if kind == "b": return _b_val(m, c)
    if kind in "TU": return _s_val(m, c)
    return encode(c, m)

CANON = [False]     # canonical output form: Python dates / datetimes / timedeltas written like datetime64 / timedelta64 scalars

def encode_out(t, m=None):
    """encode an operation's OUTPUT (canonical date forms, comparable with the real side's encoding)"""
    CANON[0] = True
    try:
        return encode(t, m)
    finally:
        CANON[0] = False

def encode(t, m=None):
    """tree -> JSON-able value, symbolic leaves evaluated in model m (None: leaves must be constants)"""
    if t is None: return t
    if isinstance(t, SymBool): return _b_val(m, t.e)
    if isinstance(t, SymI64): return _i_val(m, t.e)
    if isinstance(t, SymF64): return {"f": _f_hex(m, t.e)}
    if isinstance(t, (SymDT, SymTD)):
        key = "M" if isinstance(t, SymDT) else "m"
        v = _i_val(m, t.e); unit = t.unit
        if v == UF_WILDCARD: return v
        if v == INT64_MIN: return {key: v, "u": "generic"}
        if unit in ("s", "ms") or (key == "m" and unit in ("D", "h", "m")):
            v *= symx._UNIT_FACTOR[unit]; unit = "us"
        return {key: v, "u": unit}
    if isinstance(t, (SymStr, StrCell)) or type(t).__name__ in ("StrfToken", "ReToken", "StrFnToken", "IsoToken"): return _s_val(m, t)
    if isinstance(t, str) and t.startswith("\ue100iso"): return UF_WILDCARD
    if isinstance(t, (bool, str)): return t
    if isinstance(t, int): return t
    if isinstance(t, float):
        return {"f": NAN_HEX if t != t else "%016x" % struct.unpack("<Q", struct.pack("<d", t))[0]}
    if isinstance(t, Arr):
        k = dtype_kind(t.dtype) if not t.dtype.startswith("ndim") else "O"
        return {"a": t.dtype, "cls": t.cls, "cells": [enc_cell(c, k, m) for c in t.cells]}
    if isinstance(t, Frame):
        return {"df": t.cls, "cols": [[k, encode(v, m)] for k, v in t.cols.items()], "group": list(t.group),
                "attrs": {k: encode(v, m) for k, v in t.attrs.items()}}
    if isinstance(t, LoD):
        return {"lod": t.cls, "items": [[[k, encode(v, m)] for k, v in item] for item in t.items],
                "obsolete": bool(t.obsolete), "group": list(t.group), "item_cls": t.item_cls}
    if isinstance(t, NpScalar): return {"np": encode(t.value, m)}
    if isinstance(t, _dtm.timedelta): return {"td": t // _dtm.timedelta(microseconds=1)} if not CANON[0] else {"m": t // _dtm.timedelta(microseconds=1), "u": "us"}
    if type(t).__name__ in ("ReResult",): return UF_WILDCARD
    if type(t).__name__ == "SymWidth": return _i_val(m, t.e)
    if type(t).__name__ == "SymPyDate": return encode(SymDT(t.ticks, t.unit), m)
    if isinstance(t, Raised): return {"exc": t.type, "msg": t.msg}
    if isinstance(t, Opaque): return {"opaque": t.tag}
    if isinstance(t, list): return {"l": [encode(x, m) for x in t]}
    if isinstance(t, tuple): return {"t": [encode(x, m) for x in t]}
    if isinstance(t, dict): return {"d": [[encode(k, m), encode(v, m)] for k, v in t.items()]}
    if isinstance(t, _dtm.datetime):
        return {"dt": t.isoformat()} if not CANON[0] else {"M": (t - _dtm.datetime(1970, 1, 1)) // _dtm.timedelta(microseconds=1), "u": "us"}
    if isinstance(t, _dtm.date):
        return {"date": t.isoformat()} if not CANON[0] else {"M": (t - _dtm.date(1970, 1, 1)).days, "u": "D"}
    if z3.is_expr(t):
        if z3.is_fp(t): return {"f": _f_hex(m, t)}
        if z3.is_bv(t): return _i_val(m, t)
        if z3.is_bool(t): return _b_val(m, t)
    if isinstance(t, type): return {"type": t.__name__}
    raise symx.HarnessError(f"encode: unsupported {type(t).__name__}: {t!r}")

# ------------------------------------------------------------------ JSON -> tree of constants

def dec_cell(j, kind, unit=None):
    if kind == "f": return z3.fpBVToFP(z3.BitVecVal(int(j, 16), 64), F64) if j != NAN_HEX else z3.fpNaN(F64)
    if kind in "iMm": return z3.BitVecVal(j, 64)
    if kind == "b": return z3.BoolVal(j)
    if kind in "TU":
        try:
            return StrCell.lit(j)
        except symx.ModelGap:
            return j
    return decode(j)

def decode(j):
    if j is None or isinstance(j, (bool, str, int)): return j
    if isinstance(j, float): raise symx.HarnessError("bare float in JSON")
    if isinstance(j, list): raise symx.HarnessError("bare list in JSON")
    if "f" in j: return SymF64(dec_cell(j["f"], "f"))
    if "M" in j: return SymDT(j["M"], j["u"])
    if "m" in j: return SymTD(j["m"], j["u"])
    if "a" in j:
        k = dtype_kind(j["a"]) if not j["a"].startswith("ndim") else "O"
        return Arr(j["a"], [dec_cell(c, k) for c in j["cells"]], j["cls"])
    if "df" in j:
        return Frame({k: decode(v) for k, v in j["cols"]}, j["df"], j["group"],
                     {k: decode(v) for k, v in j.get("attrs", {}).items()})
    if "lod" in j:
        return LoD([[(k, decode(v)) for k, v in item] for item in j["items"]], j["lod"], j["obsolete"],
                   j["group"], j.get("item_cls"))
    if "np" in j:
        v = decode(j["np"])
        return NpScalar(SymI64(v) if isinstance(v, int) and not isinstance(v, bool) else v)
    if "td" in j: return _dtm.timedelta(microseconds=j["td"])
    if "exc" in j: return Raised(j["exc"], j.get("msg", ""))
    if "opaque" in j: return Opaque(j["opaque"])
    if "l" in j: return [decode(x) for x in j["l"]]
    if "t" in j: return tuple(decode(x) for x in j["t"])
    if "d" in j: return {decode(k): decode(v) for k, v in j["d"]}
    if "dt" in j: return _dtm.datetime.fromisoformat(j["dt"])
    if "date" in j: return _dtm.date.fromisoformat(j["date"])
    if "type" in j: return Opaque("type:" + j["type"])
    raise symx.HarnessError(f"decode: {j!r}")
