"""World-agnostic value trees exchanged between harnesses, operations and codecs (no z3 here).

Arr    an array: dtype string, class name, list of cells
Frame  a data frame: class name, ordered columns {name: Arr}, group column names, extra attributes
Raised an exception that escaped the operation
LoD    a ListOfDicts: list of items (each an ordered list of (key, value)) + flags
"""

class Arr:
    __slots__ = ("dtype", "cls", "cells")
    def __init__(self, dtype, cells, cls="ndarray"):
        self.dtype = dtype; self.cells = list(cells); self.cls = cls
    def __len__(self):
        return len(self.cells)
    def __repr__(self):
        return f"Arr({self.dtype},{self.cls},{self.cells!r})"

class Frame:
    __slots__ = ("cls", "cols", "group", "attrs")
    def __init__(self, cols, cls="DataFrame", group=(), attrs=None):
        self.cols = dict(cols); self.cls = cls; self.group = tuple(group); self.attrs = attrs or {}
    @property
    def names(self):
        return list(self.cols)
    def __repr__(self):
        return f"Frame({self.cls},{self.cols!r},group={self.group})"

class Raised:
    __slots__ = ("type", "msg")
    def __init__(self, type, msg=""):
        self.type = type; self.msg = msg
    def __repr__(self):
        return f"Raised({self.type}: {self.msg[:80]})"

class LoD:
    __slots__ = ("items", "cls", "obsolete", "group", "item_cls")
    def __init__(self, items, cls="ListOfDicts", obsolete=False, group=(), item_cls=None):
        self.items = items; self.cls = cls; self.obsolete = obsolete; self.group = tuple(group)
        self.item_cls = item_cls
    def __repr__(self):
        return f"LoD({self.items!r})"

class Opaque:
    """An object the codecs do not look into (identified by a tag)."""
    __slots__ = ("tag",)
    def __init__(self, tag):
        self.tag = tag
    def __eq__(self, o):
        return isinstance(o, Opaque) and o.tag == self.tag
    def __hash__(self):
        return hash(self.tag)
    def __repr__(self):
        return f"Opaque({self.tag})"

class NpScalar:
    """input marker: a NumPy scalar (np.float64 / np.int64 / np.datetime64) rather than a Python number"""
    __slots__ = ("value",)
    def __init__(self, value):
        self.value = value

NAN_HEX = "7ff8000000000000"

def dtype_kind(dtype):
    """kind letter (b i f M m U T O) of a dtype string as produced by the codecs"""
    if dtype == "bool": return "b"
    if dtype == "int64": return "i"
    if dtype == "float64": return "f"
    if dtype == "object": return "O"
    if dtype == "string": return "T"
    if dtype.startswith("datetime64"): return "M"
    if dtype.startswith("timedelta64"): return "m"
    if dtype.startswith("<U") or dtype.startswith("U"): return "U"
    raise ValueError(f"dtype string {dtype!r}")

def dtype_unit(dtype):
    return dtype[dtype.index("[") + 1:-1] if "[" in dtype else "generic"
