"""symnp: a pure-Python model of the part of NumPy 2.0 that dataiter uses.

Arrays have a *concrete* length and *symbolic* cells (z3 terms):
    bool -> z3 Bool, int64 -> BitVec(64), float64 -> Float64, datetime64[u] -> BitVec(64)
    ticks with NaT = INT64_MIN, StringDType / <U{n} -> bounded StrCell or an opaque
    concrete Python str, object -> arbitrary Python objects.
Views (basic slices, .view(), np.split pieces) share a buffer; everything NumPy documents
as copying allocates a new one, so "shares memory" is exact inside the model.
Functions are modelled operationally, forking on symbolic comparisons via symx.
Anything not modelled raises ModelGap.
"""
import builtins
import datetime as _dtm
import math
import sys
import types as _types

import z3

from . import symx
from .symx import (ALL, ANY, F64, INT64_MIN, RNE, ModelGap, StrCell, SymBool, SymDT, SymF64,
                   SymI64, SymPyFloat, SymPyInt, SymStr, SymTD, fp_of_bv, fpval, tocell)

__version__ = "2.0.2"
nan = float("nan")
inf = float("inf")
newaxis = None

# ------------------------------------------------------------------ scalar type lattice

class generic: pass
class number(generic): pass
class integer(number): pass
class signedinteger(integer): pass
class unsignedinteger(integer): pass
class inexact(number): pass
class floating(inexact): pass
class complexfloating(inexact): pass
class flexible(generic): pass
class character(flexible): pass

class bool_(generic):
    def __new__(cls, v=False):
        return SymBool(builtins.bool(v))

class int64(signedinteger):
    def __new__(cls, v=0):
        return SymI64(int(v))

class float64(floating, float):
    def __new__(cls, v=0.0):
        if isinstance(v, (SymF64, SymI64)):
            return SymF64(SymF64.lift(v))
        return float.__new__(cls, v)
    @property
    def dtype(self):
        return dtype(float)

class object_(generic): pass
class str_(str, character): pass
class bytes_(bytes, character): pass
class void(flexible): pass

bool = bool_  # np.bool in NumPy 2 (shadowing is local to this module: use builtins.bool below)
intp = int_ = int64
double = float_ = float64

class datetime64(generic):
    def __new__(cls, v=None, unit=None):
        return _make_datetime(v, unit)

class timedelta64(signedinteger):
    def __new__(cls, v=None, unit="generic"):
        if isinstance(v, str) and v in ("NaT", "nat"):
            return SymTD(INT64_MIN, unit)
        if isinstance(v, SymTD): return v
        if isinstance(v, (int, SymI64)) and not isinstance(v, builtins.bool):
            return SymTD(SymI64.lift(v), unit)
        if isinstance(v, _dtm.timedelta):
            return SymTD(v // _dtm.timedelta(microseconds=1), "us")
        if v is None:
            return SymTD(INT64_MIN, unit)
        raise ModelGap(f"timedelta64({v!r})")

for _c in (generic, number, integer, signedinteger, unsignedinteger, inexact, floating, complexfloating,
           flexible, character, bool_, int64, float64, object_, str_, bytes_, void, datetime64, timedelta64):
    _c.__module__ = "numpy"

# symbolic scalars report NumPy scalar classes to isinstance / x.__class__
def _dtype_of_scalar(x):
    if isinstance(x, SymDT): return _dt_dtype("M", x.unit)
    if isinstance(x, SymTD): return _dt_dtype("m", x.unit)
    if isinstance(x, SymF64): return dtype(float)
    if isinstance(x, SymI64): return dtype(int)
    return dtype(builtins.bool)

symx.NPCLS.update(bool_=bool_, int64=int64, float64=float64, datetime64=datetime64, timedelta64=timedelta64,
                  dtype_of=_dtype_of_scalar)

_EPOCH = _dtm.date(1970, 1, 1)

def _date_ticks(d, unit):
    if isinstance(d, _dtm.datetime):
        us = (d - _dtm.datetime(1970, 1, 1)) // _dtm.timedelta(microseconds=1)
        k = symx._UNIT_FACTOR[unit]
        return us // k   # floor, as NumPy does when casting to a coarser unit
    days = (d - _EPOCH).days
    return days * symx.unit_ratio("D", unit)

def _make_datetime(v, unit):
    if isinstance(v, SymDT):
        if unit is None or unit == v.unit: return v
        return SymDT(v.to_unit(unit), unit)
    if v is None or (isinstance(v, str) and v in ("NaT", "nat", "")) or (isinstance(v, float) and v != v) \
            or (isinstance(v, SymF64)):
        if isinstance(v, SymF64) and not symx.ctx().branch(z3.fpIsNaN(v.e)):
            raise ModelGap("datetime64(float)")
        return SymDT(INT64_MIN, unit or "generic")
    if isinstance(v, _dtm.datetime):
        u = unit or "us"
        return SymDT(_date_ticks(v, u), u)
    if isinstance(v, _dtm.date):
        u = unit or "D"
        return SymDT(_date_ticks(v, u), u)
    if isinstance(v, str):
        s = v
        if s.startswith("-"):
            # proleptic negative years: only the sentinel used by DataFrame.unique
            if s == "-001-01-01":
                return SymDT(-719893, unit or "D") if unit in (None, "D") else SymDT(-719893 * symx.unit_ratio("D", unit), unit)
            raise ModelGap(f"datetime64({v!r})")
        try:
            if len(s) <= 10:
                d = _dtm.date.fromisoformat(s)
                u = unit or "D"
            else:
                d = _dtm.datetime.fromisoformat(s)
                u = unit or ("us" if "." in s else "s")
            return SymDT(_date_ticks(d, u), u)
        except ValueError:
            raise ValueError(f'Error parsing datetime string "{v}"')
    raise ModelGap(f"datetime64({type(v).__name__})")

# ------------------------------------------------------------------ dtype

class dtype:
    """kind: b i f M m U T O.  unit for M/m, width for U."""
    def __init__(self, spec, unit=None, width=None):
        self.unit = unit
        self.width = width
        self.na_object = None
        if isinstance(spec, dtype):
            self.kind, self.unit, self.width, self.na_object = spec.kind, spec.unit, spec.width, spec.na_object
            return
        if isinstance(spec, str):
            s = spec.lstrip("<>=|")
            m = {"bool": "b", "?": "b", "int64": "i", "int": "i", "i8": "i", "float64": "f", "float": "f", "f8": "f",
                 "object": "O", "O": "O"}
            if s in m:
                self.kind = m[s]
            elif s.startswith("datetime64") or s.startswith("M8"):
                self.kind = "M"
                self.unit = s[s.index("[") + 1:-1] if "[" in s else "generic"
            elif s.startswith("timedelta64") or s.startswith("m8"):
                self.kind = "m"
                self.unit = s[s.index("[") + 1:-1] if "[" in s else "generic"
            elif s.startswith("U") and (s[1:].isdigit() or s == "U"):
                self.kind = "U"
                self.width = int(s[1:] or 0)
            elif s == "str":
                self.kind = "U"; self.width = 0
            else:
                raise TypeError(f"data type {spec!r} not understood")
            return
        if spec is None:
            self.kind = "f"; return
        if isinstance(spec, type):
            if issubclass(spec, (float64,)) or spec is float: self.kind = "f"
            elif spec is builtins.bool or issubclass(spec, bool_): self.kind = "b"
            elif spec is int or issubclass(spec, int64): self.kind = "i"
            elif issubclass(spec, datetime64): self.kind = "M"; self.unit = "generic"
            elif issubclass(spec, timedelta64): self.kind = "m"; self.unit = "generic"
            elif spec is str or issubclass(spec, str_): self.kind = "U"; self.width = 0
            elif spec is bytes or issubclass(spec, bytes_): raise ModelGap("bytes dtype")
            elif issubclass(spec, generic) and spec not in (object_,):
                raise TypeError(f"Cannot interpret abstract type {spec} as a dtype")
            else: self.kind = "O"
            return
        raise TypeError(f"Cannot interpret '{spec!r}' as a data type")
    @property
    def type(self):
        return {"b": bool_, "i": int64, "f": float64, "O": object_, "M": datetime64, "m": timedelta64,
                "U": str_, "T": str}[self.kind]
    @property
    def itemsize(self):
        return 4 * (self.width or 0) if self.kind == "U" else 16 if self.kind == "T" else 1 if self.kind == "b" else 8
    @property
    def name(self):
        return str(self).lstrip("<")
    def __eq__(self, o):
        if o is None: return False
        try:
            o = o if isinstance(o, dtype) else dtype(o)
        except (TypeError, ModelGap):
            return False
        return (self.kind, self.unit, self.width) == (o.kind, o.unit, o.width)
    def __ne__(self, o):
        return not self == o
    def __hash__(self):
        return hash((self.kind, self.unit, self.width))
    def __repr__(self):
        k = self.kind
        if k == "M": return "datetime64" if self.unit == "generic" else f"datetime64[{self.unit}]"
        if k == "m": return "timedelta64" if self.unit == "generic" else f"timedelta64[{self.unit}]"
        if k == "U": return f"<U{self.width}"
        if k == "T": return "StringDType(na_object='')" if self.na_object == "" else "StringDType()"
        return {"b": "bool", "i": "int64", "f": "float64", "O": "object"}[k]
    __str__ = __repr__

class StringDType(dtype):
    def __init__(self, na_object=None, coerce=True):
        self.kind = "T"; self.na_object = na_object; self.unit = None; self.width = None

_dtypes_mod = _types.ModuleType("numpy.dtypes")
_dtypes_mod.StringDType = StringDType
dtypes = _dtypes_mod

def _as_dtype(d):
    return d if isinstance(d, dtype) else dtype(d)

def issubdtype(arg1, arg2):
    if not (isinstance(arg1, type) and issubclass(arg1, generic)):
        arg1 = _as_dtype(arg1).type
    if not (isinstance(arg2, type) and issubclass(arg2, generic)):
        arg2 = _as_dtype(arg2).type
    if arg1 is str:      # StringDType's scalar type is the Python str
        return False
    return issubclass(arg1, arg2)

def isscalar(x):
    if isinstance(x, (SymF64, SymI64, SymBool, SymDT, SymTD, SymStr)): return True
    if isinstance(x, ndarray): return False
    # NumPy tests the exact type for text and bytes (an instance of a str subclass is not a scalar to it) and
    # numbers.Number for the rest
    import numbers
    return type(x) in (int, float, complex, str, bytes, builtins.bool) or isinstance(x, numbers.Number)

# ------------------------------------------------------------------ cells

def box(c, dt):
    k = dt.kind
    if k == "f": return SymF64(c)
    if k == "i": return SymI64(c)
    if k == "b": return SymBool(c)
    if k == "M": return SymDT(c, dt.unit)
    if k == "m": return SymTD(c, dt.unit)
    if k in "TU": return c if isinstance(c, str) else SymStr(c)
    return c

def _strcell(v, dt):
    """cell for a string array from a python-level value"""
    if isinstance(v, SymStr): v = v.c
    if isinstance(v, StrCell):
        if dt.kind == "U":
            return _fit(v, dt)
        return v
    if isinstance(v, str):
        if dt.kind == "U" and dt.width is not None and len(v) > dt.width:
            v = v[:dt.width]
        return v          # opaque concrete cell; converted lazily on comparison with a symbolic cell
    if isinstance(v, builtins.bool): raise ModelGap("store bool into string array")
    if isinstance(v, builtins.int): return _strcell(str(v), dt)
    if isinstance(v, (SymI64, symx.SymPyInt)):
        e = z3.simplify(v.e)
        if z3.is_bv_value(e): return _strcell(str(e.as_signed_long()), dt)       # a Python int whose value is fixed: its decimal text
    raise ModelGap(f"store {type(v).__name__} into string array")

def _fit(cell, dt):
    """the cell as stored into a fixed-width <U{n} array (truncated when it can be longer than the width)"""
    if dt.width is None or dt.width >= symx.STR_K + symx.STR_TAIL + 1: return cell
    too_long = z3.simplify(z3.UGT(cell.length(), dt.width))
    if z3.is_false(too_long): return cell
    t = cell.truncated(dt.width)
    if t is not None:
        return t
    c = symx.ctx() if symx.CTX is not None else None
    if c is None or c.branch(too_long):
        raise ModelGap(f"truncating store into <U{dt.width}")
    return cell

def unbox(v, dt):
    """Python-level value -> cell of dtype dt (NumPy assignment / construction casting)."""
    k = dt.kind
    if k == "f":
        if v is None: return z3.fpNaN(F64)
        if isinstance(v, (SymDT, symx.SymTD)):
            # measured on NumPy 2.0.2: a datetime64 / timedelta64 scalar stored into a float array gives its ticks
            # (in the scalar's own unit; NaT gives -9.223372036854776e18)
            return z3.fpSignedToFP(symx.RNE, v.e, F64)
        e = SymF64.lift(v)
        if e is None: raise ModelGap(f"store {type(v).__name__} into float array")
        return e
    if k == "i":
        if isinstance(v, SymF64) or (isinstance(v, float)):
            e = SymF64.lift(v)
            c = symx.ctx()
            if c.branch(z3.Or(z3.fpIsNaN(e), z3.fpIsInf(e))):
                if c.branch(z3.fpIsNaN(e)):
                    raise ValueError("cannot convert float NaN to integer")
                raise OverflowError("cannot convert float infinity to integer")
            if z3.is_app_of(e, z3.Z3_OP_FPA_TO_FP) and e.num_args() == 2 and z3.is_bv(e.arg(1)) and \
                    e.arg(1).get_id() in c.notes.get("exact_in_float", ()):
                return e.arg(1)        # float64(int) of a small integer converts back exactly
            return z3.fpToSBV(z3.RTZ(), e, z3.BitVecSort(64))
        e = SymI64.lift(v)
        if e is None:
            if v is None: raise TypeError("int() argument must be a string, a bytes-like object or a real number, not 'NoneType'")
            raise ModelGap(f"store {type(v).__name__} into int array")
        return e
    if k == "b":
        if isinstance(v, SymBool): return v.e
        if isinstance(v, builtins.bool): return z3.BoolVal(v)
        if v is None: return z3.BoolVal(False)
        if isinstance(v, SymI64): return v.e != 0
        if isinstance(v, SymF64): return z3.Not(z3.fpIsZero(v.e))
        if isinstance(v, (int, float)): return z3.BoolVal(builtins.bool(v))
        raise ModelGap(f"store {type(v).__name__} into bool array")
    if k == "M":
        if type(v).__name__ == "SymPyDate":
            v = SymDT(v.ticks, v.unit)
        if isinstance(v, SymDT):
            if dt.unit in (v.unit, "generic") or v.unit == "generic": return v.e
            try:
                return v.to_unit(dt.unit)
            except ModelGap:
                return _coarsen(v, dt.unit)
        d = _make_datetime(v, None if dt.unit == "generic" else dt.unit)
        return d.e if dt.unit in ("generic", d.unit) else d.to_unit(dt.unit)
    if k == "m":
        if isinstance(v, SymTD):
            if dt.unit in (v.unit, "generic") or v.unit == "generic": return v.e
            return z3.If(v.e == INT64_MIN, v.e, v.e * symx.unit_ratio(v.unit, dt.unit))
        if isinstance(v, _dtm.timedelta):
            return z3.BitVecVal((v // _dtm.timedelta(microseconds=1)) // symx._UNIT_FACTOR[dt.unit if dt.unit != "generic" else "us"], 64)
        if v is None: return z3.BitVecVal(INT64_MIN, 64)
        raise ValueError("Could not convert object to NumPy timedelta")
    if k in "TU":
        if v is None:
            # measured on NumPy 2.0.2: None is not the na_object "" of dataiter's string dtype, so it is stored as the text
            # "None" - four characters, outside the bounded string domain
            if k == "T": return "None"        # opaque concrete cell (compared lazily; a symbolic comparison with it is a model gap)
            raise ModelGap("None stored into a fixed-width string array")
        return _strcell(v, dt)
    return v

def _div_exact(e, k):
    """e / k for a term that is syntactically a multiple of k (y * k, possibly under If): avoids a 64-bit division"""
    e = z3.simplify(e)
    if z3.is_bv_value(e):
        v = e.as_signed_long()
        return z3.BitVecVal(v // k, 64) if v % k == 0 else None
    if z3.is_app_of(e, z3.Z3_OP_BMUL) and e.num_args() == 2:
        a, b = e.arg(0), e.arg(1)
        if z3.is_bv_value(a) and a.as_signed_long() == k: return b
        if z3.is_bv_value(b) and b.as_signed_long() == k: return a
    if z3.is_app_of(e, z3.Z3_OP_ITE):
        x, y = _div_exact(e.arg(1), k), _div_exact(e.arg(2), k)
        if x is not None and y is not None: return z3.If(e.arg(0), x, y)
    return None

def _coarsen(v, unit):
    k = symx.unit_ratio(unit, v.unit)
    if symx.CTX is not None:
        # a cell built from its digits (symdt.sym_datetime_us) knows its floor quotient: no division for the solver
        known = symx.CTX.notes.get("floor_div", {}).get((z3.simplify(v.e).get_id(), k))
        if known is not None:
            return z3.If(v.e == INT64_MIN, v.e, known)
    d = _div_exact(z3.If(v.e == INT64_MIN, z3.BitVecVal(0, 64), v.e), k)
    if d is not None:
        return z3.If(v.e == INT64_MIN, v.e, d)
    # floor division (NumPy floors toward -inf when casting to a coarser unit)
    q = z3.If(v.e >= 0, v.e / k, -((-v.e + (k - 1)) / k))
    return z3.If(v.e == INT64_MIN, v.e, q)

def cast_cell(c, fm, to):
    if fm.kind == to.kind:
        if fm.kind in "M" and fm.unit != to.unit and "generic" not in (fm.unit, to.unit):
            return unbox(SymDT(c, fm.unit), to)
        if fm.kind == "U" and to.kind == "U":
            return _strcell(c, to)
        return c
    if fm.kind in "TU" and to.kind in "TU":
        return _strcell(c, to)
    if to.kind == "O":
        if fm.kind == "M":
            from . import symdt
            if z3.is_true(z3.simplify(c == INT64_MIN)) or (not z3.is_false(z3.simplify(c == INT64_MIN)) and symx.ctx().branch(c == INT64_MIN)):
                return None
            return symdt.SymPyDate(c, fm.unit)
        return box(c, fm)
    if fm.kind in "TU":
        raise ModelGap(f"astype string -> {to}")
    if to.kind in "TU":
        raise ModelGap(f"astype {fm} -> string")
    if fm.kind in "Mm" and to.kind == "i":
        return c          # array-level cast (measured on NumPy 2.0.2): the ticks, NaT as INT64_MIN
    if fm.kind in "Mm" and to.kind == "f":
        # array-level cast only (measured on NumPy 2.0.2): the ticks as a number, NaT included (-9.223372036854776e18)
        return z3.fpSignedToFP(symx.RNE, c, F64)
    return unbox(box(c, fm), to)

class Buffer:
    __slots__ = ("cells", "__weakref__")
    def __init__(self, cells):
        self.cells = cells

# ------------------------------------------------------------------ ndarray

def _result_class(*xs):
    for x in xs:
        if isinstance(x, ndarray) and type(x) is not ndarray:
            return type(x)
    return ndarray

_PROMO = "bif"

def _promote(a, b):
    """result dtype of arithmetic / concatenation between dtypes a and b"""
    if a.kind == b.kind:
        if a.kind == "M":
            if a.unit == b.unit or b.unit == "generic": return a
            if a.unit == "generic": return b
            return a if symx._UNIT_FACTOR[a.unit] < symx._UNIT_FACTOR[b.unit] else b
        if a.kind == "U": return a if (a.width or 0) >= (b.width or 0) else b
        return a
    if a.kind in _PROMO and b.kind in _PROMO:
        return a if _PROMO.index(a.kind) > _PROMO.index(b.kind) else b
    if "O" in (a.kind, b.kind): return dtype(object)
    if {a.kind, b.kind} == {"T", "U"}: return a if a.kind == "T" else b
    raise TypeError(f"The DType {a} could not be promoted by {b}. This means that no common DType exists "
                    "for the given inputs.")

class ndarray:
    _nd = 1
    def __new__(cls, *a, **k):
        raise ModelGap("ndarray.__new__")
    @staticmethod
    def _make(cells, dt, klass=None, buf=None, idx=None, nd=1, src=None):
        a = object.__new__(klass or ndarray)
        a._own = buf is None          # flags.owndata: this array allocated its buffer (views and .view(cls) do not)
        a._buf = buf if buf is not None else Buffer(list(cells))
        a._idx = idx if idx is not None else list(range(len(a._buf.cells)))
        a.dtype = _as_dtype(dt)
        if nd != 1: a._nd = nd
        fin = getattr(type(a), "__array_finalize__", None)
        if fin is not None:
            fin(a, src)               # NumPy's subclass hook: obj is the array this one was made from (view, slice, copy, ufunc), else None
        return a
    def _cells(self):
        b = self._buf.cells
        return [b[i] for i in self._idx]
    def _like(self, cells, dt=None, klass=None):
        return ndarray._make(cells, dt or self.dtype, klass or type(self), src=self)
    # --- basic attributes
    @property
    def flags(self):
        import types
        return types.SimpleNamespace(owndata=builtins.bool(getattr(self, "_own", False)), writeable=True, c_contiguous=True)
    @property
    def ndim(self): return self._nd
    @property
    def size(self): return len(self._idx)
    @property
    def shape(self): return (len(self._idx),) if self._nd == 1 else (len(self._idx), 0)[:self._nd]
    @property
    def nbytes(self): return len(self._idx) * self.dtype.itemsize
    @property
    def itemsize(self): return self.dtype.itemsize
    @property
    def T(self): return self
    def __len__(self):
        if self._nd == 0: raise TypeError("len() of unsized object")
        return len(self._idx)
    def __iter__(self):
        dt = self.dtype
        for c in self._cells():
            yield box(c, dt)
    def __array_wrap__(self, array, context=None, return_scalar=False):
        return array.view(type(self))
    __hash__ = None
    def __bool__(self):
        if len(self._idx) == 1:
            return builtins.bool(box(self._cells()[0], self.dtype))
        if len(self._idx) == 0:
            return False
        raise ValueError("The truth value of an array with more than one element is ambiguous. Use a.any() or a.all()")
    def __repr__(self):
        return f"<symnp {type(self).__name__} {self.dtype} n={len(self._idx)}>"
    # --- views / copies
    def view(self, klass=None):
        if isinstance(klass, (dtype, str)): raise ModelGap("view(dtype)")
        return ndarray._make(None, self.dtype, klass or type(self), self._buf, self._idx, self._nd, src=self)
    def copy(self, order="C"):
        return ndarray._make(self._cells(), self.dtype, type(self), nd=self._nd, src=self)
    def astype(self, dt, copy=True):
        if isinstance(dt, str) and dt.lstrip("<") == "U0" and self.dtype.kind == "T":
            raise TypeError("cannot cast dtype StringDType(na_object='') to <class 'numpy.dtypes.StrDType'>.")
        dt = _as_dtype(dt)
        if dt.kind == "M" and dt.unit == "generic" and self.dtype.kind == "M":
            dt = self.dtype
        if copy is False and dt == self.dtype:
            return self               # NumPy hands back the array itself when nothing has to be converted
        if self.dtype.kind == "O" and dt.kind != "O":
            cells = [unbox(_obj_scalar(c), dt) for c in self._cells()]
            if dt.kind == "M" and dt.unit == "generic": raise ModelGap("object -> generic datetime")
            if dt.kind == "U": dt = _fit_width(cells, dt)
            return ndarray._make(cells, dt, type(self))
        if dt.kind == "U" and not dt.width:
            raise ModelGap("astype(str) width inference")
        return ndarray._make([cast_cell(c, self.dtype, dt) for c in self._cells()], dt, type(self), src=self)
    def repeat(self, n, axis=None):
        return repeat(self, n)
    def tolist(self):
        return [_to_py(box(c, self.dtype)) for c in self._cells()]
    def item(self, *a):
        if a: return _to_py(self[a[0]])
        if len(self._idx) != 1:
            raise ValueError("can only convert an array of size 1 to a Python scalar")
        return _to_py(box(self._cells()[0], self.dtype))
    def put(self, indices, values):
        # C-level write: does not go through a subclass's __setitem__
        ndarray.__setitem__(self, list(indices), values)
    def take(self, indices, axis=None):
        return self[indices if isinstance(indices, ndarray) else list(indices)]
    def flatten(self): return self.copy()
    ravel = flatten
    def fill(self, v):
        for i in self._idx: self._buf.cells[i] = unbox(v, self.dtype)
    def __ior__(self, o):
        r = self | o
        ndarray.__setitem__(self, slice(None), r)
        return self
    # --- indexing
    def _positions(self, key):
        """-> ("scalar", pos) | ("view", idx) | ("copy", [pos...])"""
        n = len(self._idx)
        if isinstance(key, tuple):
            if len(key) != 1: raise ModelGap("multi-dimensional index")
            key = key[0]
        if isinstance(key, (SymBool, builtins.bool)) and not isinstance(key, SymI64):
            raise ModelGap("boolean scalar index")
        if isinstance(key, (int, SymI64)):
            return "scalar", _pos(key, n)
        if isinstance(key, slice):
            key = slice(*[None if s is None else int(s) for s in (key.start, key.stop, key.step)])
            return "view", list(range(n))[key]
        if key is Ellipsis:
            return "view", list(range(n))
        if isinstance(key, ndarray):
            if key.dtype.kind == "b":
                if len(key) != n:
                    raise IndexError(f"boolean index did not match indexed array along axis 0; size of axis is {n} "
                                     f"but size of corresponding boolean axis is {len(key)}")
                c = symx.ctx
                return "copy", [i for i, m in enumerate(key._cells()) if (c().branch(m) if not _is_lit(m) else z3.is_true(z3.simplify(m)))]
            if key.dtype.kind == "i":
                return "copy", [_pos(SymI64(k), n) for k in key._cells()]
            if key.dtype.kind == "f" and len(key) == 0:
                return "copy", []
            raise IndexError("arrays used as indices must be of integer (or boolean) type")
        if isinstance(key, (list, range)):
            key = list(key)
            if key and all(isinstance(k, (builtins.bool, SymBool)) and not isinstance(k, SymI64) for k in key):
                return self._positions(array(key, dtype(builtins.bool)))
            return "copy", [_pos(k, n) for k in key]
        raise ModelGap(f"index of type {type(key).__name__}")
    def __getitem__(self, key):
        how, p = self._positions(key)
        if how == "scalar":
            return box(self._buf.cells[self._idx[p]], self.dtype)
        if how == "view":
            return ndarray._make(None, self.dtype, type(self), self._buf, [self._idx[i] for i in p], src=self)
        cs = self._buf.cells
        r = ndarray._make([cs[self._idx[i]] for i in p], self.dtype, type(self), src=self)
        r._own = type(self) is ndarray     # measured: fancy / mask indexing of a subclass gives a view of a fresh base array
        return r
    def __setitem__(self, key, value):
        how, p = self._positions(key)
        pos = [p] if how == "scalar" else p
        dt = self.dtype
        if isinstance(value, ndarray):
            vs = [cast_cell(c, value.dtype, dt) if value.dtype.kind != "O" else unbox(_obj_scalar(c), dt) for c in value._cells()]
        elif isinstance(value, (list, tuple)):
            vs = [unbox(v, dt) for v in value]
        else:
            vs = None
        if vs is None:
            if dt.kind in "Mm" and isinstance(value, (float, SymF64)):
                # item assignment does not convert float NaN to NaT (np.full_like / astype do)
                raise ValueError("Could not convert object to NumPy " + ("datetime" if dt.kind == "M" else "timedelta"))
            c = unbox(value, dt)
            vs = [c] * len(pos)
        elif how == "scalar":
            if dt.kind == "O": vs = [value]
            elif len(vs) != 1: raise ValueError("setting an array element with a sequence.")
        elif len(vs) == 1 and len(pos) != 1:
            vs = vs * len(pos)
        elif len(vs) != len(pos):
            if how == "copy" and isinstance(key, ndarray) and key.dtype.kind == "b" or (isinstance(key, tuple) and 0):
                raise ValueError(f"NumPy boolean array indexing assignment cannot assign {len(vs)} input values to "
                                 f"the {len(pos)} output values where the mask is true")
            raise ValueError(f"shape mismatch: value array of shape ({len(vs)},) could not be broadcast to "
                             f"indexing result of shape ({len(pos)},)")
        for q, v in zip(pos, vs):
            self._buf.cells[self._idx[q]] = v
    # --- elementwise
    def _bin(self, o, f, out=None, reflected=False):
        sdt = self.dtype
        if isinstance(o, ndarray):
            n, m = len(self), len(o)
            if n != m and 1 not in (n, m):
                raise ValueError(f"operands could not be broadcast together with shapes ({n},) ({m},) ")
            xs, ys = list(self), list(o)
            if n != m:
                if n == 1: xs = xs * m
                else: ys = ys * n
            odt = o.dtype
            rs = [f(a, b) for a, b in zip(xs, ys)]
            klass = _result_class(self, o)
        else:
            if isinstance(o, (list, tuple)):
                return self._bin(array(o), f, out, reflected)
            odt = _scalar_dtype(o, sdt)
            rs = [f(a, o) for a in self]
            klass = _result_class(self)
        if out == "cmp":
            rdt = dtype(builtins.bool)
            rs = [_cmp_result(r) for r in rs]
        else:
            rdt = out(sdt, odt) if callable(out) else _promote(sdt, odt)
        return ndarray._make([unbox(r, rdt) for r in rs], rdt, klass)
    def _cmp(self, o, f, default):
        if o is None and self.dtype.kind != "O":
            return ndarray._make([z3.BoolVal(default)] * len(self), dtype(builtins.bool), _result_class(self))
        def g(a, b):
            r = f(a, b)
            if r is NotImplemented:
                return default
            return r
        try:
            return self._bin(o, g, "cmp")
        except TypeError as e:
            if "could not be promoted" in str(e): raise
            raise
    def __eq__(self, o): return self._cmp(o, lambda a, b: _py_eq(a, b), False)
    def __ne__(self, o): return self._cmp(o, lambda a, b: _py_ne(a, b), True)
    def __lt__(self, o): return self._cmp(o, lambda a, b: a < b, False)
    def __le__(self, o): return self._cmp(o, lambda a, b: a <= b, False)
    def __gt__(self, o): return self._cmp(o, lambda a, b: a > b, False)
    def __ge__(self, o): return self._cmp(o, lambda a, b: a >= b, False)
    def _logic(self, o, f):
        if self.dtype.kind != "b": raise ModelGap("bitwise op on non-bool array")
        return self._bin(o, f)
    def __or__(self, o): return self._logic(o, lambda a, b: a | b)
    def __ror__(self, o): return self._logic(o, lambda a, b: a | b)
    def __and__(self, o): return self._logic(o, lambda a, b: a & b)
    def __rand__(self, o): return self._logic(o, lambda a, b: a & b)
    def __xor__(self, o): return self._logic(o, lambda a, b: a ^ b)
    def __invert__(self):
        k = self.dtype.kind
        if k == "b": return self._like([z3.Not(c) for c in self._cells()])
        if k == "i": return self._like([-c - 1 for c in self._cells()])
        if k == "O": return self._like([~_obj_scalar(c) for c in self._cells()])      # Python's ~ on each object
        raise TypeError("ufunc 'invert' not supported for the input types")
    def __neg__(self):
        k = self.dtype.kind
        if k == "b":
            raise TypeError("The numpy boolean negative, the `-` operator, is not supported, use the `~` operator "
                            "or the logical_not function instead.")
        if k == "f": return self._like([z3.fpNeg(c) for c in self._cells()])
        if k == "i": return self._like([-c for c in self._cells()])
        if k in "TU": raise TypeError("ufunc 'negative' did not contain a loop with signature matching types")
        if k == "M": raise TypeError("ufunc 'negative' did not contain a loop with signature matching types")
        return self._like([-c for c in self._cells()])
    def __abs__(self):
        return self._like([unbox(abs(x), self.dtype) for x in self])
    def _arith_dtype(self, name):
        def out(a, b):
            if a.kind == "M" or b.kind == "M":
                if name == "sub" and a.kind == "M" and b.kind == "m": return a
                if name == "add" and {a.kind, b.kind} == {"M", "m"}: return a if a.kind == "M" else b
                raise ModelGap(f"datetime arithmetic {name}")
            if a.kind in "TUO" or b.kind in "TUO":
                if a.kind == "O" or b.kind == "O": return dtype(object)
                raise TypeError(f"ufunc '{name}' did not contain a loop with signature matching types")
            r = _promote(a, b)
            if name == "truediv": return dtype(float)
            if r.kind == "b":
                if name == "sub":
                    raise TypeError("numpy boolean subtract, the `-` operator, is not supported, use the bitwise_xor, "
                                    "the `^` operator, or the logical_xor function instead.")
                if name == "mul": return r
            return r
        return out
    def __add__(self, o): return self._bin(o, lambda a, b: a + b, self._arith_dtype("add"))
    def __radd__(self, o): return self._bin(o, lambda a, b: b + a, self._arith_dtype("add"))
    def __sub__(self, o): return self._bin(o, lambda a, b: a - b, self._arith_dtype("sub"))
    def __rsub__(self, o): return self._bin(o, lambda a, b: b - a, self._arith_dtype("sub"))
    def __mul__(self, o): return self._bin(o, lambda a, b: _mul(a, b), self._arith_dtype("mul"))
    def __rmul__(self, o): return self._bin(o, lambda a, b: _mul(b, a), self._arith_dtype("mul"))
    def __mod__(self, o):
        if self.dtype.kind != "i" or not isinstance(o, int) or isinstance(o, builtins.bool): raise ModelGap(f"{self.dtype} % {type(o).__name__}")
        return self._bin(o, lambda a, b: a % b, self._arith_dtype("mod"))
    def __floordiv__(self, o):
        if self.dtype.kind != "i" or not isinstance(o, int) or isinstance(o, builtins.bool): raise ModelGap(f"{self.dtype} // {type(o).__name__}")
        return self._bin(o, lambda a, b: a // b, self._arith_dtype("floordiv"))
    def __truediv__(self, o): return self._bin(o, lambda a, b: _div(a, b), self._arith_dtype("truediv"))
    def __rtruediv__(self, o): return self._bin(o, lambda a, b: _div(b, a), self._arith_dtype("truediv"))
    # --- reductions
    def any(self, axis=None):
        return ANY([_truth(c, self.dtype) for c in self._cells()])
    def all(self, axis=None):
        return ALL([_truth(c, self.dtype) for c in self._cells()])
    def sum(self, axis=None):
        return sum(self)
    def max(self, axis=None, initial=None):
        if initial is not None:
            if not len(self._idx): return box(unbox(initial, self.dtype), self.dtype)
            r = amax(self)
            i = box(unbox(initial, self.dtype), self.dtype)
            if self.dtype.kind == "i": return SymI64(z3.If(r.e > i.e, r.e, i.e))
            raise ModelGap("max(initial=) on non-int array")
        return amax(self)
    def min(self, axis=None): return amin(self)
    def mean(self, axis=None): return mean(self)
    def std(self, axis=None, ddof=0): return std(self, ddof=ddof)
    def var(self, axis=None, ddof=0): return var(self, ddof=ddof)
    def argmax(self, axis=None): return argmax(self)
    def argsort(self, axis=-1, kind=None, order=None, stable=None):
        return ndarray._make([z3.BitVecVal(i, 64) for i in _stable_order([self])], dtype(int), type(self))
    def cumsum(self, axis=None):
        if self.dtype.kind not in "ib": raise ModelGap("cumsum of non-int")
        out = []; t = SymI64(0)
        for x in self:
            t = t + x
            out.append(t.e)
        return self._like(out, dtype(int))
    def nonzero(self):
        return nonzero(self)
    def sort(self, axis=-1, kind=None, order=None, stable=None):
        # in-place sort of a base-class array
        order_ = _stable_order([self])
        cs = self._cells()
        for q, i in zip(range(len(cs)), order_):
            self._buf.cells[self._idx[q]] = cs[i]

def _is_lit(e):
    e = z3.simplify(e)
    return z3.is_true(e) or z3.is_false(e)

def _pos(k, n):
    k = int(k)
    if k < 0: k += n
    if not 0 <= k < n:
        raise IndexError(f"index {k if k >= 0 else k - n} is out of bounds for axis 0 with size {n}")
    return k

def _to_py(v):
    """tolist()/item(): NumPy scalars become Python scalars"""
    if type(v) is SymF64: return SymPyFloat(v.e)
    if type(v) is SymI64: return SymPyInt(v.e)
    if type(v) is SymBool: return symx.SymPyBool(v.e)
    if type(v) in (SymDT, symx.SymTD): return v.item()
    return v

def _obj_scalar(c):
    return c

def _cmp_result(r):
    if isinstance(r, SymBool): return r
    if isinstance(r, builtins.bool): return r
    if r is NotImplemented: return False
    raise ModelGap(f"comparison returned {type(r).__name__}")

def _py_eq(a, b):
    if isinstance(a, str) and not isinstance(a, SymStr) and isinstance(b, SymStr):
        return b == a
    r = a == b
    return r

def _py_ne(a, b):
    if isinstance(a, str) and not isinstance(a, SymStr) and isinstance(b, SymStr):
        return b != a
    return a != b

def _mul(a, b):
    return a * b

def _div(a, b):
    if isinstance(a, (SymI64, SymBool, int)) and isinstance(b, (SymI64, SymBool, int)):
        return SymF64(z3.fpDiv(RNE, SymF64.lift(a), SymF64.lift(b)))
    return a / b

def _truth(c, dt):
    k = dt.kind
    if k == "b": return c
    if k == "i": return c != 0
    if k == "f": return z3.Not(z3.fpIsZero(c))
    if k == "O":
        if isinstance(c, (SymBool, SymI64, SymF64)): return unbox(c, dtype(builtins.bool))
        return z3.BoolVal(builtins.bool(c))
    raise ModelGap(f"truth value of {dt} cell")

def _scalar_dtype(o, other):
    if isinstance(o, (SymBool, builtins.bool)) and not isinstance(o, SymI64): return dtype(builtins.bool)
    if isinstance(o, SymI64): return dtype(int)
    if isinstance(o, int): return other if other.kind in "if" else dtype(int)       # NEP 50: weak Python scalars
    if isinstance(o, SymF64): return dtype(float)
    if isinstance(o, float): return other if other.kind == "f" else dtype(float)
    if isinstance(o, SymDT): return dtype(datetime64, unit=o.unit) if False else _dt_dtype("M", o.unit)
    if isinstance(o, SymTD): return _dt_dtype("m", o.unit)
    if isinstance(o, (str, SymStr)): return other if other.kind in "TU" else dtype("U1")
    return dtype(object)

def _dt_dtype(kind, unit):
    d = dtype(object); d.kind = kind; d.unit = unit
    return d

def _fit_width(cells, dt):
    w = 1
    for c in cells:
        if isinstance(c, str): w = builtins.max(w, len(c))
        else: w = builtins.max(w, symx.STR_K + symx.STR_TAIL + 1)
    d = dtype("U1"); d.width = w
    return d

# ------------------------------------------------------------------ total order used by sorting

def _lt_eq(a, b, dt):
    """(lt, eq) z3 terms for NumPy's sort order on cells (NaN / NaT last)."""
    k = dt.kind
    if k == "f":
        na, nb = z3.fpIsNaN(a), z3.fpIsNaN(b)
        return z3.Or(z3.And(z3.Not(na), nb), z3.fpLT(a, b)), z3.Or(z3.And(na, nb), z3.fpEQ(a, b))
    if k in "Mm":
        na, nb = a == INT64_MIN, b == INT64_MIN
        return z3.Or(z3.And(z3.Not(na), nb), z3.And(z3.Not(na), z3.Not(nb), a < b)), a == b
    if k == "i": return a < b, a == b
    if k == "b": return z3.And(z3.Not(a), b), a == b
    if k in "TU":
        if isinstance(a, str) and isinstance(b, str):
            return z3.BoolVal(a < b), z3.BoolVal(a == b)
        a, b = tocell(a), tocell(b)
        return a.lt(b), a.eq(b)
    raise ModelGap(f"sort order for {dt}")

def _less_obj(x, y):
    r = x < y
    return builtins.bool(r)

def _stable_order(keys):
    """keys: list of arrays, LAST is primary (lexsort convention).  Stable insertion sort, forking."""
    n = len(keys[0])
    cols = [(k._cells(), k.dtype) for k in reversed(keys)]
    c = symx.ctx
    def less(i, j):
        for cs, dt in cols:
            if dt.kind == "O":
                if _less_obj(cs[i], cs[j]): return True
                if _less_obj(cs[j], cs[i]): return False
                continue
            lt, eq = _lt_eq(cs[i], cs[j], dt)
            lt = z3.simplify(lt)
            if z3.is_true(lt): return True
            if not z3.is_false(lt) and c().branch(lt): return True
            eq = z3.simplify(eq)
            if z3.is_false(eq): return False
            if not z3.is_true(eq) and not c().branch(eq): return False
        return False
    order = []
    for i in range(n):
        p = len(order)
        while p > 0 and less(i, order[p - 1]):
            p -= 1
        order.insert(p, i)
    return order

def lexsort(keys, axis=-1):
    if isinstance(keys, ndarray) and keys._nd == 2:
        if getattr(keys, "_rows", None) is None: raise ModelGap("lexsort on a 2-D array without rows")
        keys = keys._rows
    keys = [k if isinstance(k, ndarray) else array(k) for k in keys]
    if not keys: raise TypeError("need sequence of keys with len > 0 in lexsort")
    for k in keys:
        if k.dtype.kind == "T":
            raise ModelGap("lexsort on StringDType (segfaults in NumPy 2.0)")
        if len(k) != len(keys[0]): raise ValueError("all keys need to be the same shape")
    return array(_stable_order(list(keys)), dtype(int))

def argsort(a, axis=-1, kind=None, order=None, stable=None):
    return a.argsort(kind=kind)

def sort(a, axis=-1, kind=None, order=None, stable=None):
    if type(a) is not ndarray and "sort" in type(a).__dict__ or builtins.any("sort" in k.__dict__ for k in type(a).__mro__[:-2] if k is not ndarray):
        # np.sort copies and calls a.sort(axis=..., kind=...) on the copy: a subclass that
        # overrides sort() with another signature fails exactly as with the real NumPy
        b = a.copy()
        b.sort(axis=axis, kind=kind, order=order, stable=stable)
        return b
    o = _stable_order([a])
    cs = a._cells()
    return ndarray._make([cs[i] for i in o], a.dtype, type(a))

# ------------------------------------------------------------------ construction

def _kind_of_value(x):
    if isinstance(x, ndarray): return "nd"
    if isinstance(x, (SymBool, builtins.bool)) and not isinstance(x, SymI64): return "b"
    if isinstance(x, (SymI64,)): return "i"
    if isinstance(x, SymF64): return "f"
    if isinstance(x, int): return "i"
    if isinstance(x, float): return "f"
    if isinstance(x, SymDT): return "M"
    if isinstance(x, SymTD): return "m"
    if isinstance(x, (str, SymStr)): return "U"
    if isinstance(x, (list, tuple)): return "nd"
    return "O"

def array(obj, dtype_=None, copy=True, ndmin=0, **kw):
    if "dtype" in kw: dtype_ = kw.pop("dtype")
    if kw: raise ModelGap(f"np.array kwargs {list(kw)}")
    if isinstance(obj, ndarray):
        dt = obj.dtype if dtype_ is None else _as_dtype(dtype_)
        if dt.kind == "M" and dt.unit == "generic" and obj.dtype.kind == "M": dt = obj.dtype
        if dt.kind == "U" and not dt.width and obj.dtype.kind in "TU":
            dt = _fit_width(obj._cells(), dt) if obj.dtype.kind == "T" else obj.dtype
        if obj.dtype.kind == "O" and dt.kind != "O":
            return ndarray._make(obj._cells(), obj.dtype).astype(dt)
        return ndarray._make([cast_cell(c, obj.dtype, dt) for c in obj._cells()], dt, nd=obj._nd)
    if isinstance(obj, (SymF64, SymI64, SymBool, SymDT, int, float, str, SymStr)) or obj is None:
        raise ModelGap("0-d array")
    obj = list(obj)
    if dtype_ is None:
        ks = [_kind_of_value(x) for x in obj]
        kset = set(ks)
        if "nd" in kset:
            if kset == {"nd"} and len({len(x) for x in obj}) == 1:
                inner = [array(x) if not isinstance(x, ndarray) else x for x in obj]
                rdt = inner[0].dtype if inner else dtype(float)
                for x in inner[1:]:
                    if x.dtype != rdt: rdt = _promote(rdt, x.dtype)
                a = ndarray._make(list(range(len(obj))), rdt, nd=2)
                a._rows = [x if x.dtype == rdt else ndarray._make(x._cells(), x.dtype).astype(rdt) for x in inner]     # rows in the common dtype
                return a
            raise ValueError("setting an array element with a sequence. The requested array has an inhomogeneous "
                             "shape after 1 dimensions.")
        if not kset: dt = dtype(float)
        elif kset == {"U"}:
            dt = _fit_width([tocell(x) if isinstance(x, SymStr) else x for x in obj], dtype("U1"))
        elif "O" in kset: dt = dtype(object)
        elif "U" in kset: raise ModelGap("np.array of mixed str and non-str (stringification)")
        elif "M" in kset:
            if kset != {"M"}:
                dt = dtype(object)
            else:
                units = {x.unit for x in obj}
                u = builtins.min(units - {"generic"}, key=lambda u: symx._UNIT_FACTOR[u], default="generic")
                dt = _dt_dtype("M", u)
        elif "m" in kset:
            if kset != {"m"}: dt = dtype(object)
            else:
                units = {getattr(x, "unit", "us") for x in obj} - {"generic"}
                dt = _dt_dtype("m", builtins.min(units, key=lambda u: symx._UNIT_FACTOR[u], default="generic"))
        else:
            dt = dtype({"b": builtins.bool, "i": int, "f": float}[builtins.max(kset, key="bif".index)])
    else:
        dt = _as_dtype(dtype_)
        if builtins.any(isinstance(x, (list, tuple, ndarray)) for x in obj) and dt.kind != "O":
            if builtins.all(isinstance(x, (list, tuple, ndarray)) for x in obj) and len({len(x) for x in obj}) == 1:
                return ndarray._make(list(range(len(obj))), dt, nd=2)
            raise ValueError("setting an array element with a sequence. The requested array has an inhomogeneous "
                             "shape after 1 dimensions.")
        if dt.kind == "m" and dt.unit == "generic":
            units = {x.unit for x in obj if isinstance(x, SymTD)} - {"generic"}
            dt = _dt_dtype("m", builtins.min(units, key=lambda u: symx._UNIT_FACTOR[u], default="generic"))
        if dt.kind == "M" and dt.unit == "generic":
            units = {x.unit for x in obj if isinstance(x, SymDT)} - {"generic"}
            for x in obj:
                if isinstance(x, _dtm.datetime): units.add("us")
                elif isinstance(x, _dtm.date): units.add("D")
                elif isinstance(x, str) and x not in ("NaT", ""): units.add("D" if len(x) <= 10 else "s")
            u = builtins.min(units, key=lambda u: symx._UNIT_FACTOR[u], default="generic")
            dt = _dt_dtype("M", u)
    cells = [unbox(x, dt) for x in obj]
    if dt.kind == "U" and not dt.width:
        dt = _fit_width(cells, dt)
    return ndarray._make(cells, dt)

def asanyarray(obj, dtype=None):
    return obj if isinstance(obj, ndarray) and dtype is None else array(obj, dtype)

def asarray(obj, dtype=None):
    """base-class array; a view (no copy) when obj already is an array"""
    if isinstance(obj, ndarray) and (dtype is None or _as_dtype(dtype) == obj.dtype):
        return obj if type(obj) is ndarray else ndarray._make(None, obj.dtype, ndarray, obj._buf, obj._idx, obj._nd)
    return array(obj, dtype)

def arange(a, b=None, step=None, dtype=None):
    if step is not None: raise ModelGap("arange step")
    lo, hi = (0, a) if b is None else (a, b)
    if isinstance(lo, (float, SymF64)) or isinstance(hi, (float, SymF64)): raise ModelGap("float arange")
    return array(list(range(int(lo), int(hi))), globals()["dtype"](int))

def full(n, value, dtype=None):
    if isinstance(n, tuple): (n,) = n
    return array([value] * int(n), dtype)

def full_like(a, value, dtype=None):
    dt = _as_dtype(dtype) if dtype is not None else a.dtype
    if dt.kind == "M" and dt.unit == "generic": dt = a.dtype
    return ndarray._make([unbox(value, dt) for _ in range(len(a))], dt, type(a))

def zeros_like(a, dtype=None):
    dt = _as_dtype(dtype) if dtype is not None else a.dtype
    zero = {"b": False, "i": 0, "f": 0.0, "O": 0}.get(dt.kind)
    if zero is None: raise ModelGap(f"zeros_like {dt}")
    return ndarray._make([unbox(zero, dt) for _ in range(len(a))], dt, type(a))

def zeros(n, dtype=float):
    return array([0] * int(n), dtype)

def fromiter(it, dtype, count=-1):
    xs = list(it)
    if count >= 0 and len(xs) < count:
        raise ValueError(f"iterator too short: Expected {count} but iterator had only {len(xs)} items.")
    if count >= 0: xs = xs[:count]
    return array(xs, dtype)

def concatenate(parts, axis=0, out=None, dtype=None, casting="same_kind"):
    if out is not None: raise ModelGap("concatenate(out=)")
    parts = list(parts)
    if not parts: raise ValueError("need at least one array to concatenate")
    parts = [p if isinstance(p, ndarray) else array(p) for p in parts]
    dt = parts[0].dtype
    for p in parts[1:]:
        dt = _promote(dt, p.dtype)
    if dtype is not None:
        # every part is cast to the requested dtype under the casting rule (default same_kind: narrowing within a kind passes)
        dt = _as_dtype(dtype)
        if casting != "same_kind": raise ModelGap(f"concatenate(casting={casting!r})")
        for p in parts:
            a, b = p.dtype.kind, dt.kind
            if a == b and a in "bifMmUO": continue
            if a in "bif" and b in "bif" and "bif".index(a) < "bif".index(b): continue
            if a in "bif" and b in "bif":
                raise TypeError(f"Cannot cast array data from dtype('{p.dtype}') to dtype('{dt}') according to the rule 'same_kind'")
            raise ModelGap(f"concatenate(dtype=) from {p.dtype} to {dt}")
    cells = []
    for p in parts:
        if p.dtype.kind == "O" or dt.kind != "O":
            cells += [cast_cell(c, p.dtype, dt) for c in p._cells()]
        else:
            cells += [box(c, p.dtype) for c in p._cells()]
    return ndarray._make(cells, dt)

def repeat(a, n, axis=None):
    if not isinstance(a, ndarray): a = array([a])
    if isinstance(n, ndarray):
        ns = [int(k) for k in n]
        if len(ns) == 1 and len(a) != 1: ns = ns * len(a)
        if len(ns) != len(a): raise ValueError("operands could not be broadcast together with shape "
                                               f"({len(a)},) ({len(ns)},)")
    else:
        ns = [int(n)] * len(a)
    if builtins.any(k < 0 for k in ns): raise ValueError("repeats may not contain negative values.")
    if a.dtype.kind == "T" and builtins.any(k >= 2 for k in ns):
        # observed on the pinned NumPy 2.0.2 (pinned by the witness replays): repeat() copies the packed string structs
        # without their heap data, so strings of 16+ bytes are corrupted (MemoryError on first use, or a crash)
        for c, k in zip(a._cells(), ns):
            if k < 2: continue
            long = (len(c.encode("utf-8")) >= 16) if isinstance(c, str) else None
            if long is None:
                cond = z3.simplify(z3.Or(c.tail, c.cut))
                long = z3.is_true(cond) or (not z3.is_false(cond) and symx.ctx().branch(cond))
            if long:
                raise MemoryError("Failed to load string (ndarray.repeat on a StringDType array with a string of 16+ bytes)")
    return ndarray._make([c for c, k in zip(a._cells(), ns) for _ in range(k)], a.dtype, type(a))

def split(a, at, axis=0):
    if isinstance(at, (int, SymI64)): raise ModelGap("split into N sections")
    at = [int(i) for i in at]
    n = len(a)
    bounds = [0] + at + [n]
    return [a[builtins.min(bounds[i], n):builtins.min(bounds[i + 1], n)] if bounds[i] <= bounds[i + 1]
            else a[0:0] for i in range(len(bounds) - 1)]

def take(a, idx, axis=None):
    return a[idx if isinstance(idx, (ndarray, int, SymI64)) else list(idx)]

def delete(a, idx, axis=None):
    if isinstance(idx, tuple):
        if len(idx) != 1: raise ModelGap("delete with tuple")
        idx = idx[0]
    if isinstance(idx, ndarray) and idx.dtype.kind == "b":
        if len(idx) != len(a):
            raise ValueError("boolean array argument obj to delete must be one dimensional and match the axis "
                             f"length of {len(a)}")
        drop = {i for i, m in enumerate(idx._cells()) if symx.ctx().branch(m)}
    elif isinstance(idx, (int, SymI64)):
        drop = {_pos(idx, len(a))}
    else:
        if isinstance(idx, ndarray) and idx.dtype.kind not in "i" and len(idx):
            raise IndexError("arrays used as indices must be of integer (or boolean) type")
        drop = {_pos(SymI64(k) if z3.is_expr(k) else k, len(a)) for k in (idx._cells() if isinstance(idx, ndarray) else idx)}
    cs = a._cells()
    r = ndarray._make([c for i, c in enumerate(cs) if i not in drop], a.dtype, type(a))
    r._own = type(a) is ndarray            # measured (owndata of np.delete / np.unique on a subclass is False)
    return r

def nonzero(x):
    if not isinstance(x, ndarray): x = array(x)
    c = symx.ctx
    pos = []
    for i, m in enumerate(x._cells()):
        t = z3.simplify(_truth(m, x.dtype))
        if z3.is_true(t) or (not z3.is_false(t) and c().branch(t)):
            pos.append(i)
    return (array(pos, dtype(int)),)

def flatnonzero(x):
    return nonzero(x)[0]

def where(cond, *a):
    if not a: return nonzero(cond)
    x, y = a
    if not isinstance(cond, ndarray): cond = array(cond)
    n = len(cond)
    def elems(v):
        if isinstance(v, ndarray):
            if len(v) not in (n, 1): raise ValueError("operands could not be broadcast together")
            vs = list(v)
            return (vs * n if len(vs) == 1 and n != 1 else vs), v.dtype
        return [v] * n, (dtype(object) if v is None else _scalar_dtype(v, dtype(object)))
    xs, xd = elems(x)
    ys, yd = elems(y)
    rdt = _promote(xd, yd) if xd != yd else xd
    out = []
    for m, u, v in zip(cond._cells(), xs, ys):
        t = z3.simplify(_truth(m, cond.dtype))
        if rdt.kind in "fib" or rdt.kind in "M":
            cu, cv = unbox(u, rdt), unbox(v, rdt)
            out.append(cu if z3.is_true(t) else cv if z3.is_false(t) else z3.If(t, cu, cv))
        else:
            pick = z3.is_true(t) or (not z3.is_false(t) and symx.ctx().branch(t))
            out.append(unbox(u if pick else v, rdt))
    return ndarray._make(out, rdt)

def isin(a, test):
    test = list(test)
    return ndarray._make([ANY([_py_eq(x, t) for t in test]).e for x in a], dtype(builtins.bool))

def setdiff1d(a, b, assume_unique=False):
    """sorted unique values of a that are not in b (values are compared, positions are not interpreted)"""
    a = a if isinstance(a, ndarray) else array(a)
    b = b if isinstance(b, ndarray) else array(b)
    u = a if assume_unique else unique(a)
    tests = list(b)
    cells = [c for c, x in zip(u._cells(), list(u)) if not builtins.bool(ANY([_py_eq(x, t) for t in tests]))]
    return ndarray._make(cells, u.dtype)

NUMBA_MODE = False      # set while a Numba kernel's source is executed (see vf/numba_model.py)

def unique(a, return_index=False, return_inverse=False, return_counts=False, equal_nan=True):
    order = _stable_order([a])
    cs = a._cells()
    groups = []
    c = symx.ctx
    for i in order:
        if groups:
            if a.dtype.kind == "O":
                eq = z3.BoolVal(builtins.bool(cs[groups[-1][0]] == cs[i]))
            else:
                _, eq = _lt_eq(cs[groups[-1][0]], cs[i], a.dtype)
                if NUMBA_MODE and a.dtype.kind == "f":
                    eq = z3.fpEQ(cs[groups[-1][0]], cs[i])        # Numba's np.unique compares neighbours with !=
            eq = z3.simplify(eq)
            if z3.is_true(eq) or (not z3.is_false(eq) and c().branch(eq)):
                groups[-1].append(i)
                continue
        groups.append([i])
    klass = type(a)
    out = [ndarray._make([cs[g[0]] for g in groups], a.dtype, klass)]
    out[0]._own = klass is ndarray
    if return_index:
        out.append(ndarray._make([z3.BitVecVal(g[0], 64) for g in groups], dtype(int), klass))
    if return_inverse:
        inv = [None] * len(cs)
        for gi, g in enumerate(groups):
            for i in g: inv[i] = z3.BitVecVal(gi, 64)
        out.append(ndarray._make(inv, dtype(int)))
    if return_counts:
        out.append(ndarray._make([z3.BitVecVal(len(g), 64) for g in groups], dtype(int)))
    return out[0] if len(out) == 1 else tuple(out)

def bincount(x, minlength=0):
    if not isinstance(x, ndarray): x = array(x, dtype(int))
    if x.dtype.kind not in "ib" and len(x): raise TypeError("Cannot cast array data from dtype to int64 according to the rule 'safe'")
    xs = [int(v) for v in x]
    if builtins.any(v < 0 for v in xs): raise ValueError("'list' argument must have no negative elements")
    n = builtins.max(xs) + 1 if xs else 0
    return array([xs.count(i) for i in range(builtins.max(n, minlength))], dtype(int))

def cumsum(a, axis=None):
    return a.cumsum()

def diff(a, n=1, axis=-1):
    """a[1:] - a[:-1] in the array's own dtype (int64 differences wrap, as NumPy's do)"""
    a = a if isinstance(a, ndarray) else array(a)
    for _ in range(int(n)):
        a = (a[1:] != a[:-1]) if a.dtype.kind == "b" else (a[1:] - a[:-1])
    return a

# ------------------------------------------------------------------ element-wise functions

def _ufunc1(x, f, dt_out=None, kinds="f", name="ufunc"):
    if isinstance(x, ndarray):
        if x.dtype.kind not in kinds:
            raise TypeError(f"ufunc '{name}' not supported for the input types, and the inputs could not be safely "
                            "coerced to any supported types according to the casting rule ''safe''")
        return ndarray._make([f(c, x.dtype) for c in x._cells()], dt_out or x.dtype, type(x))
    return None

def isnan(x):
    if isinstance(x, ndarray):
        if x.dtype.kind in "ib":
            return ndarray._make([z3.BoolVal(False)] * len(x), dtype(builtins.bool), type(x))
        return _ufunc1(x, lambda c, d: z3.fpIsNaN(c), dtype(builtins.bool), "f", "isnan")
    if isinstance(x, SymF64): return SymBool(z3.fpIsNaN(x.e))
    if isinstance(x, (SymI64, SymBool)): return SymBool(False)
    if isinstance(x, (int, float)): return math.isnan(x)
    raise TypeError("ufunc 'isnan' not supported for the input types, and the inputs could not be safely coerced "
                    "to any supported types according to the casting rule ''safe''")

def isnat(x):
    if isinstance(x, ndarray):
        if x.dtype.kind not in "Mm":
            raise TypeError("ufunc 'isnat' is only defined for np.datetime64 and np.timedelta64.")
        return ndarray._make([c == INT64_MIN for c in x._cells()], dtype(builtins.bool), type(x))
    if isinstance(x, (SymDT, SymTD)): return SymBool(x.e == INT64_MIN)
    raise TypeError("ufunc 'isnat' is only defined for np.datetime64 and np.timedelta64.")

def isfinite(x):
    if isinstance(x, SymF64): return SymBool(z3.Not(z3.Or(z3.fpIsInf(x.e), z3.fpIsNaN(x.e))))
    if isinstance(x, ndarray):
        if x.dtype.kind in "ib": return ndarray._make([z3.BoolVal(True)] * len(x), dtype(builtins.bool), type(x))
        return _ufunc1(x, lambda c, d: z3.Not(z3.Or(z3.fpIsInf(c), z3.fpIsNaN(c))), dtype(builtins.bool), "f", "isfinite")
    return math.isfinite(x)

def isinf(x):
    if isinstance(x, SymF64): return SymBool(z3.fpIsInf(x.e))
    if isinstance(x, ndarray): return _ufunc1(x, lambda c, d: z3.fpIsInf(c), dtype(builtins.bool), "f", "isinf")
    return math.isinf(x)

def ceil(x):
    f = lambda c, d=None: z3.fpRoundToIntegral(z3.RTP(), c)
    if isinstance(x, ndarray):
        if x.dtype.kind in "ib": x = x.astype(float)
        return _ufunc1(x, f, None, "f", "ceil")
    return SymF64(f(SymF64.lift(x)))

def minimum(a, b):
    def f(x, y):
        if isinstance(x, (SymF64, float)) or isinstance(y, (SymF64, float)):
            ex, ey = SymF64.lift(x), SymF64.lift(y)
            return SymF64(z3.If(z3.fpIsNaN(ex), ex, z3.If(z3.fpIsNaN(ey), ey, z3.If(z3.fpLT(ey, ex), ey, ex))))
        ex, ey = SymI64.lift(x), SymI64.lift(y)
        return SymI64(z3.If(ey < ex, ey, ex))
    if isinstance(a, ndarray): return a._bin(b, f)
    if isinstance(b, ndarray): return b._bin(a, lambda y, x: f(x, y))
    return f(a, b)

def _reduce_minmax(x, want_max, skipna):
    cs = x._cells()
    k = x.dtype.kind
    name = ("fmax" if skipna else "maximum") if want_max else ("fmin" if skipna else "minimum")
    if not cs:
        raise ValueError(f"zero-size array to reduction operation {name} which has no identity")
    r = cs[0]
    if k == "f":
        for c in cs[1:]:
            better = z3.fpGT(c, r) if want_max else z3.fpLT(c, r)
            if skipna:
                r = z3.If(z3.fpIsNaN(r), c, z3.If(z3.fpIsNaN(c), r, z3.If(better, c, r)))
            else:
                r = z3.If(z3.fpIsNaN(r), r, z3.If(z3.fpIsNaN(c), c, z3.If(better, c, r)))
        return SymF64(r)
    if k in "Mm":
        for c in cs[1:]:
            better = (c > r) if want_max else (c < r)
            if skipna:
                r = z3.If(r == INT64_MIN, c, z3.If(c == INT64_MIN, r, z3.If(better, c, r)))
            else:
                r = z3.If(r == INT64_MIN, r, z3.If(c == INT64_MIN, c, z3.If(better, c, r)))
        return box(r, x.dtype)
    if k == "i":
        for c in cs[1:]:
            r = z3.If((c > r) if want_max else (c < r), c, r)
        return SymI64(r)
    if k == "b":
        return ANY(cs) if want_max else ALL(cs)
    if k in "TU":
        r = tocell(r)
        for c in cs[1:]:
            c = tocell(c)
            r = StrCell.ite(r.lt(c) if want_max else c.lt(r), c, r)
        return SymStr(r)
    if k == "O":
        r = cs[0]
        for c in cs[1:]:
            if builtins.bool((c > r) if want_max else (c < r)): r = c
        return r
    raise ModelGap(f"min/max of {x.dtype}")

def amax(x, axis=None): return _reduce_minmax(x, True, False)
def amin(x, axis=None): return _reduce_minmax(x, False, False)
max = amax
min = amin
def nanmax(x, axis=None):
    _nan_check_kind(x)
    return _reduce_minmax(x, True, True)
def nanmin(x, axis=None):
    _nan_check_kind(x)
    return _reduce_minmax(x, False, True)

def _nan_check_kind(x):
    if x.dtype.kind in "TU":
        raise ModelGap("nanmin/nanmax of string array")

def argmax(x, axis=None):
    cs = x._cells()
    if not cs: raise ValueError("attempt to get argmax of an empty sequence")
    best = 0
    c = symx.ctx
    for i in range(1, len(cs)):
        lt, _ = _lt_eq(cs[best], cs[i], x.dtype)
        if x.dtype.kind == "f":
            # first NaN wins, otherwise first maximum
            lt = z3.And(z3.Not(z3.fpIsNaN(cs[best])), z3.Or(z3.fpIsNaN(cs[i]), z3.fpLT(cs[best], cs[i])))
        if c().branch(lt): best = i
    return SymI64(best)

def sum(x, axis=None):
    if not isinstance(x, ndarray): x = array(x)
    cs = x._cells(); k = x.dtype.kind
    if k == "b":
        t = z3.BitVecVal(0, 64)
        for c in cs: t = t + z3.If(c, z3.BitVecVal(1, 64), z3.BitVecVal(0, 64))
        return SymI64(z3.simplify(t))
    if k == "i":
        t = z3.BitVecVal(0, 64)
        for c in cs: t = t + c
        return SymI64(t)
    if k == "f":
        if not cs: return SymF64(0.0)
        t = cs[0]
        if len(cs) >= 8: raise ModelGap("pairwise float summation (n >= 8)")
        for c in cs[1:]: t = z3.fpAdd(RNE, t, c)
        return SymF64(t)
    if k == "O":
        t = 0
        for c in cs: t = t + c
        return t
    if k in "TU":
        raise ModelGap("sum of strings")
    raise TypeError(f"ufunc 'add' cannot use operands with types {x.dtype}")

def all(x, axis=None):
    return x.all() if isinstance(x, ndarray) else ALL([builtins.bool(v) for v in x])

def any(x, axis=None):
    return x.any() if isinstance(x, ndarray) else ANY([builtins.bool(v) for v in x])

# ---- reducers whose arithmetic is NumPy's, not dataiter's: uninterpreted functions with
#      Ackermann congruence (fresh result + pairwise "same args => same result")

def uf(name, args, extra=()):
    """Uninterpreted Float64-valued function of z3 terms `args` (plus hashable `extra`)."""
    if builtins.all(z3.is_fp_value(z3.simplify(a)) or z3.is_fp_value(a) for a in args):
        return _uf_concrete(name, [z3.simplify(a) for a in args], extra)
    c = symx.ctx()
    reg = c.notes.setdefault("uf", {})
    key = (name, len(args), tuple(a.sort().name() for a in args), tuple(extra))
    apps = reg.setdefault(key, [])
    for prev_args, prev_res in apps:
        if builtins.all(z3.eq(a, b) for a, b in zip(prev_args, args)):
            return prev_res
    res = z3.FP(c.name("uf_" + name), F64)
    for prev_args, prev_res in apps:
        same = z3.And([a == b for a, b in zip(prev_args, args)]) if args else z3.BoolVal(True)
        c.assume(z3.Implies(same, res == prev_res))
    apps.append((list(args), res))
    return res

_UF_CACHE = {}

def _uf_concrete(name, args, extra):
    """all arguments are concrete: the uninterpreted reducer is the real NumPy function (asked from the replay server)"""
    from . import run, symcodec
    n_extra = 1 if name == "quantile" and not extra else 0
    vals = args[:len(args) - n_extra] if n_extra else args
    job = {"name": name, "values": {"l": [{"f": symcodec._f_hex(None, a)} for a in vals]}}
    if name in ("std", "var"): job["ddof"] = int(extra[0]) if extra else 0
    if name == "quantile":
        job["q"] = {"f": symcodec._f_hex(None, args[-1])} if n_extra else {"f": symcodec._f_hex(None, fpval(extra[0]))}
    key = repr(job)
    if key not in _UF_CACHE:
        r = run.replay("np_reduce", {"d": [[k, v] for k, v in job.items()]})
        _UF_CACHE[key] = symcodec.dec_cell(r["out"]["f"], "f")
    return _UF_CACHE[key]

def uf_reducer(name, fp_args, extra=(), extra_terms=()):
    """Uninterpreted NumPy reducer on Float64 terms, with the documented facts as axioms:
    empty input -> NaN; a NaN element -> NaN; std/var with n - ddof <= 0 -> NaN."""
    r = uf(name, list(fp_args) + list(extra_terms), extra)
    if symx.CTX is None or z3.is_fp_value(r):
        return r
    c = symx.ctx()
    if not fp_args:
        c.assume(z3.fpIsNaN(r))
    else:
        c.assume(z3.Implies(z3.Or([z3.fpIsNaN(a) for a in fp_args]), z3.fpIsNaN(r)), note=f"np.{name}: a NaN element gives NaN")
    if name in ("std", "var") and len(fp_args) - (int(extra[0]) if extra else 0) <= 0:
        c.assume(z3.fpIsNaN(r), note="np.std/np.var: n - ddof <= 0 gives NaN")
    note = f"np.{name} is an uninterpreted function of its elements (same symbol in implementation and oracle)"
    if note not in c.assumptions: c.assumptions.append(note)
    return r

def _reducer(name, x, extra=(), extra_terms=()):
    if not isinstance(x, ndarray): x = array(x)
    k = x.dtype.kind
    if k not in "fib":
        raise TypeError(f"ufunc '{name}' cannot use operands with types {x.dtype}" if k in "TUM" else f"unsupported operand type(s) for {name}")
    cs = x._cells()
    if k == "b": cs = [z3.If(c, z3.BitVecVal(1, 64), z3.BitVecVal(0, 64)) for c in cs]
    args = [fp_of_bv(c) if k in "ib" else c for c in cs]
    return SymF64(uf_reducer(name, args, extra, extra_terms))

def mean(x, axis=None): return _reducer("mean", x)
def median(x, axis=None, overwrite_input=False):
    r = _reducer("median", x)
    if overwrite_input and isinstance(x, ndarray) and len(x) > 1:
        # NumPy partitions the input in place; which permutation results is unspecified: modelled as sorted
        ndarray.sort(x)
    return r
def std(x, axis=None, ddof=0): return _reducer("std", x, (int(ddof),))
def var(x, axis=None, ddof=0): return _reducer("var", x, (int(ddof),))
def quantile(x, q, axis=None):
    if isinstance(q, SymF64): return _reducer("quantile", x, (), (q.e,))
    return _reducer("quantile", x, (float(q),))

def _drop_nan(x):
    if not isinstance(x, ndarray): x = array(x)
    if x.dtype.kind != "f": return x
    keep = [c for c in x._cells() if not ((z3.is_true(z3.simplify(z3.fpIsNaN(c)))) or
                                          (not z3.is_false(z3.simplify(z3.fpIsNaN(c))) and symx.ctx().branch(z3.fpIsNaN(c))))]
    return ndarray._make(keep, x.dtype)

# nan-aware reducers: the plain reducer on the non-NaN elements (NumPy's documented definition)
def nanmean(x, axis=None): return _reducer("mean", _drop_nan(x))
def nanmedian(x, axis=None): return _reducer("median", _drop_nan(x))
def nanstd(x, axis=None, ddof=0): return _reducer("std", _drop_nan(x), (int(ddof),))
def nanvar(x, axis=None, ddof=0): return _reducer("var", _drop_nan(x), (int(ddof),))
def nansum(x, axis=None): return sum(_drop_nan(x))
def nanquantile(x, q, axis=None): return quantile(_drop_nan(x), q)

class _Vectorized:
    def __init__(self, f, otypes=None):
        self.f = f; self.otypes = otypes
    def __call__(self, x):
        if not isinstance(x, ndarray): x = array(x)
        if len(x) == 0 and self.otypes is None:
            raise ValueError("cannot call `vectorize` on size 0 inputs unless `otypes` is set")
        return array([self.f(v) for v in x])

def vectorize(f, otypes=None):
    return _Vectorized(f, otypes)

# ------------------------------------------------------------------ submodules

strings = _types.ModuleType("numpy.strings")

def _str_len(a):
    if a.dtype.kind not in "TU": raise TypeError("string operation on non-string array")
    out = []
    for c in a._cells():
        out.append(z3.BitVecVal(len(c), 64) if isinstance(c, str) else c.length())
    return ndarray._make(out, dtype(int), type(a))
strings.str_len = _str_len

class StrFnToken(str):
    """result cell of an uninterpreted numpy.strings function: remembers function, input cell and arguments"""
    def __new__(cls, name, cell, args):
        s = str.__new__(cls, f"<np.strings.{name}>"); s.name = name; s.cell = cell; s.args = args
        return s

def _strings_getattr(name):
    """every other numpy.strings function is uninterpreted: element-wise, result depends on (function, element, arguments)"""
    if name.startswith("_"): raise AttributeError(name)
    def f(a, *args, **kw):
        if not isinstance(a, ndarray) or a.dtype.kind not in "TU":
            raise TypeError("string operation on non-string array")
        cells = [StrFnToken(name, c, (args, tuple(sorted(kw.items())))) for c in a._cells()]
        return ndarray._make(cells, dtype(object), type(a))
    f.__name__ = name
    return f
strings.__getattr__ = _strings_getattr

random = _types.ModuleType("numpy.random")

def _random_choice(n, size=None, replace=True):
    """Contract stub: with replace=False returns ANY `size` distinct indices in ANY order."""
    if replace: raise ModelGap("random.choice with replacement")
    n = int(n); size = int(size)
    if size > n: raise ValueError("Cannot take a larger sample than population when 'replace=False'")
    c = symx.ctx()
    vs = [symx.sym_int_range("rnd", 0, n - 1) for _ in range(size)]
    for i in range(size):
        for j in range(i):
            c.assume(vs[i] != vs[j])
    c.notes.setdefault("random_choice", []).append(vs)
    c.assumptions.append("np.random.choice(n, k, replace=False) returns arbitrary k distinct indices in arbitrary order") if "np.random.choice(n, k, replace=False) returns arbitrary k distinct indices in arbitrary order" not in c.assumptions else None
    return ndarray._make(vs, dtype(int))
random.choice = _random_choice

def format_float_positional(*a, **k): raise ModelGap("format_float_positional")
def format_float_scientific(*a, **k): raise ModelGap("format_float_scientific")
def load(*a, **k): raise ModelGap("np.load")
def savez(*a, **k): raise ModelGap("np.savez")
def savez_compressed(*a, **k): raise ModelGap("np.savez_compressed")

class _IndexExpression:
    def __getitem__(self, item): return item
s_ = _IndexExpression()
index_exp = _IndexExpression()

def shares_memory(a, b):
    return a._buf is b._buf and builtins.bool(set(a._idx) & set(b._idx))

def install():
    m = sys.modules[__name__]
    sys.modules["numpy"] = m
    sys.modules["numpy.dtypes"] = _dtypes_mod
    sys.modules["numpy.strings"] = strings
    sys.modules["numpy.random"] = random
    return m

def datetime_data(dt):
    """(unit, count) of a datetime64 / timedelta64 dtype; multiples of a unit are outside the model"""
    d = _as_dtype(dt)
    if d.kind not in "Mm": raise TypeError("cannot get datetime metadata from non-datetime type")
    return (d.unit, 1)
