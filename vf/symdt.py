"""Model of Python's datetime objects as they come out of datetime64.astype(object): calendar arithmetic is
C code on both sides of the C19 comparison, so every calendar function is an uninterpreted function of the
ticks (same symbol in implementation and oracle; evaluated with the real `datetime` module on concrete ticks)."""
import datetime as _dtm

import z3

from . import symx
from .symx import SymI64, INT64_MIN

_EPOCH = _dtm.datetime(1970, 1, 1)

def to_py(ticks, unit):
    """concrete ticks -> datetime.date (unit D) or datetime.datetime"""
    if unit == "D":
        return _dtm.date(1970, 1, 1) + _dtm.timedelta(days=ticks)
    us = ticks * symx._UNIT_FACTOR[unit]
    return _EPOCH + _dtm.timedelta(microseconds=us)

def from_py(d, unit):
    if isinstance(d, _dtm.datetime):
        us = (d - _EPOCH) // _dtm.timedelta(microseconds=1)
        return us // symx._UNIT_FACTOR[unit]
    days = (d - _dtm.date(1970, 1, 1)).days
    return days * symx.unit_ratio("D", unit) if unit != "D" else days

RANGES = {"year": (1, 9999), "month": (1, 12), "day": (1, 31), "hour": (0, 23), "minute": (0, 59), "second": (0, 59),
          "microsecond": (0, 999999), "weekday": (0, 6), "isoweekday": (1, 7), "isoweek": (1, 53)}

def _concrete(name, unit, vals, extra):
    d = to_py(vals[0], unit)
    if name in ("year", "month", "day"): return getattr(d, name)
    if name in ("hour", "minute", "second", "microsecond"): return getattr(d, name)      # AttributeError for dates, as in Python
    if name == "weekday": return d.weekday()
    if name == "isoweekday": return d.isoweekday()
    if name == "isoweek": return d.isocalendar()[1]
    if name == "replace":
        kw = dict(zip(extra, vals[1:]))
        return from_py(d.replace(**kw), unit)
    raise ValueError(name)

def uf_bv(name, args, unit, extra=()):
    """uninterpreted BitVec64-valued calendar function (Ackermann congruence), real datetime on concrete args"""
    args = [z3.simplify(a) for a in args]
    if all(z3.is_bv_value(a) for a in args):
        try:
            return z3.BitVecVal(_concrete(name, unit, [a.as_signed_long() for a in args], extra), 64)
        except (OverflowError, ValueError):
            # NaT / out-of-range ticks or an impossible date: datetime itself has no answer (callers guard NaT)
            return z3.BitVecVal(-777777777, 64)
    c = symx.ctx()
    if name in _TOD and unit in _TOD_UNIT and len(args) == 1:
        return _time_of_day(c, args[0], unit)[name]
    reg = c.notes.setdefault("uf_dt", {})
    key = (name, unit, len(args), tuple(extra))
    apps = reg.setdefault(key, [])
    for pa, pr in apps:
        if all(z3.eq(a, b) for a, b in zip(pa, args)):
            return pr
    r = z3.BitVec(c.name("ufdt_" + name), 64)
    for pa, pr in apps:
        c.assume(z3.Implies(z3.And([a == b for a, b in zip(pa, args)]), r == pr))
    if name in RANGES:
        lo, hi = RANGES[name]
        c.assume(z3.And(r >= lo, r <= hi), note="datetime components lie in their calendar ranges")
    note = "calendar functions of datetime objects are uninterpreted functions of the ticks (same symbol in implementation and oracle)"
    if note not in c.assumptions: c.assumptions.append(note)
    apps.append((args, r))
    if name in RANGES:
        c.notes.setdefault("exact_in_float", set()).add(r.get_id())     # |r| < 2**53: int -> float64 -> int is the identity
    return r

_TOD = ("hour", "minute", "second", "microsecond")
_TOD_UNIT = {"us": 10**6, "ms": 1000, "s": 1}     # ticks per second

def _time_of_day(c, ticks, unit):
    """hour / minute / second / microsecond of a datetime are not calendar lore but place values of the ticks: fresh integers
    tied to them by  ticks == (((day * 24 + hour) * 60 + minute) * 60 + second) * tps + fraction  with every digit in its
    range, which determines them uniquely (multiplications by constants only, no division for the solver)"""
    reg = c.notes.setdefault("tod", {})
    key = (ticks.get_id(), unit)
    if key in reg: return reg[key]
    tps = _TOD_UNIT[unit]
    t = z3.simplify(ticks)
    if z3.is_app_of(t, z3.Z3_OP_BMUL) and t.num_args() == 2:
        ks = [a.as_signed_long() for a in (t.arg(0), t.arg(1)) if z3.is_bv_value(a)]
        if ks and ks[0] % (86400 * tps) == 0:
            # whole days (a date scaled to this unit): midnight, syntactically
            zero = z3.BitVecVal(0, 64)
            out = {"hour": zero, "minute": zero, "second": zero, "microsecond": zero}
            reg[key] = out
            return out
    day, h, m, sec, frac = [z3.BitVec(c.name("tod_" + n), 64) for n in ("day", "h", "m", "s", "f")]
    lo, hi = -719162, 2932896
    inrange = z3.And(ticks != INT64_MIN, ticks >= lo * 86400 * tps, ticks <= (hi * 86400 + 86399) * tps + tps - 1)
    c.assume(z3.Implies(inrange, z3.And(day >= lo, day <= hi, h >= 0, h <= 23, m >= 0, m <= 59, sec >= 0, sec <= 59, frac >= 0, frac <= tps - 1,
                                        ticks == (((day * 24 + h) * 60 + m) * 60 + sec) * tps + frac)),
             note="time-of-day components are the place values of the ticks (years 1..9999)")
    us = frac * (10**6 // tps)
    out = {"hour": h, "minute": m, "second": sec, "microsecond": us}
    ex = c.notes.setdefault("exact_in_float", set())
    for v in (h, m, sec, us): ex.add(v.get_id())
    reg[key] = out
    return out

def sym_datetime_us(c, tag, whole_seconds=True):
    """a datetime64[us] cell built from its digits (day, hour, minute, second[, microsecond]) or NaT; the digits are
    registered as the time-of-day components of that cell, so the solver never has to divide"""
    v = z3.BitVec(c.name(tag), 64)
    day, h, m, sec = [z3.BitVec(c.name(f"{tag}_{n}"), 64) for n in ("day", "h", "m", "s")]
    frac = z3.BitVecVal(0, 64) if whole_seconds else z3.BitVec(c.name(f"{tag}_f"), 64)
    lo, hi = -719162, 2932896
    digits = z3.And(day >= lo, day <= hi, h >= 0, h <= 23, m >= 0, m <= 59, sec >= 0, sec <= 59, frac >= 0, frac <= 999999)
    c.assume(z3.Or(v == INT64_MIN, z3.And(digits, v == (((day * 24 + h) * 60 + m) * 60 + sec) * 10**6 + frac)),
             note="datetime values within years 1..9999 (or NaT), given by their day / hour / minute / second digits")
    out = {"hour": h, "minute": m, "second": sec, "microsecond": frac}
    ex = c.notes.setdefault("exact_in_float", set())
    for x in (h, m, sec, frac): ex.add(x.get_id())
    c.notes.setdefault("tod", {})[(v.get_id(), "us")] = out
    c.notes.setdefault("floor_div", {})[(v.get_id(), 86400 * 10**6)] = day        # floor(v / one day) for a non-NaT v
    return v, day

def iso_text(ticks, unit):
    """str(datetime) / str(date): the ISO text of the value, which loses nothing.  A plain str (so that type inference in the
    code under test sees a string) with a private-use marker; the ticks it stands for are kept in the path's notes"""
    t = z3.simplify(ticks) if z3.is_expr(ticks) else z3.BitVecVal(int(ticks), 64)
    if z3.is_bv_value(t):
        v = t.as_signed_long()
        if v == INT64_MIN: return "NaT"
        try:
            if unit == "ms": return str(to_py(v * 1000, "us"))
            if unit in ("D", "s", "us"): return str(to_py(v, unit))
        except (OverflowError, ValueError):
            pass
    c = symx.ctx()
    reg = c.notes.setdefault("iso", {})
    for text, (tk, u) in reg.items():
        if u == unit and z3.eq(z3.simplify(tk), t): return text       # the same value gives the same text
    text = f"\ue100iso{len(reg)}\ue101"
    reg[text] = (ticks, unit)
    return text

def iso_lookup(text):
    return symx.ctx().notes.get("iso", {}).get(text) if symx.CTX is not None else None

class StrfToken(str):
    """text produced by strftime: an opaque string remembering (ticks term, unit, format)"""
    def __new__(cls, ticks, unit, fmt):
        s = str.__new__(cls, f"<strftime {fmt}>")
        s.ticks = ticks; s.unit = unit; s.fmt = fmt
        return s

class SymPyDate:
    """datetime.date (unit D) / datetime.datetime (finer units) with symbolic ticks"""
    def __init__(self, ticks, unit):
        self.ticks = ticks if z3.is_expr(ticks) else z3.BitVecVal(int(ticks), 64)
        self.unit = unit
    def _get(self, name):
        if self.unit == "D" and name in ("hour", "minute", "second", "microsecond"):
            raise AttributeError(f"'datetime.date' object has no attribute '{name}'")
        return SymI64(uf_bv(name, [self.ticks], self.unit))
    year = property(lambda s: s._get("year")); month = property(lambda s: s._get("month")); day = property(lambda s: s._get("day"))
    hour = property(lambda s: s._get("hour")); minute = property(lambda s: s._get("minute")); second = property(lambda s: s._get("second"))
    microsecond = property(lambda s: s._get("microsecond"))
    def weekday(self): return self._get("weekday")
    def isoweekday(self): return self._get("isoweekday")
    def isocalendar(self): return (self._get("year"), self._get("isoweek"), self._get("isoweekday"))
    def replace(self, **kw):
        names = tuple(sorted(kw))
        if self.unit == "D" and any(k in ("hour", "minute", "second", "microsecond") for k in names):
            raise TypeError("replace() got an unexpected keyword argument for a date")
        vals = [SymI64.lift(kw[k]) if SymI64.lift(kw[k]) is not None else None for k in names]
        if any(v is None for v in vals): raise symx.ModelGap("datetime.replace with a non-integer component")
        return SymPyDate(uf_bv("replace", [self.ticks] + vals, self.unit, names), self.unit)
    def strftime(self, fmt):
        return StrfToken(self.ticks, self.unit, fmt)
    def __str__(self):
        return iso_text(self.ticks, self.unit)
    def __hash__(self): return 0
    def __eq__(self, o):
        if isinstance(o, SymPyDate) and o.unit == self.unit: return symx.SymBool(self.ticks == o.ticks)
        return False

def strptime(text, fmt):
    """contract: strptime(strftime(d, f), f) == d for the format family; anything else is outside the model"""
    if isinstance(text, StrfToken) and text.fmt == fmt:
        # strptime always returns a datetime (microsecond resolution)
        t = text.ticks if text.unit == "us" else text.ticks * symx.unit_ratio(text.unit, "us")
        return SymPyDate(t, "us")
    raise symx.ModelGap("strptime of a string that did not come from strftime with the same format")
