"""indirection so that vf.ops can reach the real codec without importing numpy at module import"""
def encode(x):
    from . import realcodec
    return realcodec.encode(x)
