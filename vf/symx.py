"""symx: dynamic symbolic executor.

Symbolic execution by operator overloading with decision-trace replay.  The real
dataiter code runs on objects whose Python operators build z3 terms; whenever
Python needs a concrete bool / int the executor asks the solver which outcomes
are feasible under the current path condition and forks.  All feasible paths are
enumerated (DFS over the decision tree, distributed over worker processes that
re-execute the harness from the start following a recorded decision prefix).

Theories: Bool + BitVec(64) + Float64 (all bit-blastable).  Python ints of the
pure-Python harnesses are modelled as BitVec(64) too (values within int64).
"""
import os
import sys
import time
import traceback

import z3

# --------------------------------------------------------------------------- errors

class PathAbort(BaseException):
    """The current path cannot be continued (infeasible prefix, solver unknown)."""

class ModelGap(BaseException):
    """The code under test reached something the NumPy model / stubs do not cover.
    BaseException so that `except Exception` in code under test cannot swallow it."""
    def __init__(self, what):
        where = ""
        for fr in traceback.extract_stack()[::-1]:
            if "/dataiter/" in fr.filename:
                where = f"{fr.filename}:{fr.lineno}"
                break
        super().__init__(f"{what} @ {where}")

class HarnessError(BaseException):
    pass

# --------------------------------------------------------------------------- solver

RNE = z3.RNE()
F64 = z3.Float64()
BV64 = z3.BitVecSort(64)
INT64_MIN = -2**63
INT64_MAX = 2**63 - 1

QUERY_TIMEOUT_MS = int(os.environ.get("VF_QUERY_TIMEOUT_MS", "20000"))

def _fast_tactic():
    return z3.TryFor(z3.Then("simplify", "fpa2bv", "simplify", "bit-blast", "sat"), QUERY_TIMEOUT_MS)

def _qffpbv_tactic():
    return z3.TryFor(z3.Tactic("qffpbv"), QUERY_TIMEOUT_MS)

_XC = {"n": 0}

def _xcheck_dump(constraints, result):
    """thorough tier: every VF_XCHECK_EVERY-th decided query is exported as SMT-LIB2 for re-decision by other solvers"""
    d = os.environ.get("VF_XCHECK_DIR")
    if not d: return
    _XC["n"] += 1
    every = int(os.environ.get("VF_XCHECK_EVERY", "150"))
    if _XC["n"] % every: return
    try:
        s = z3.Solver(); s.add(*constraints)
        txt = "(set-logic QF_BVFP)\n" + s.to_smt2()
        name = os.path.join(d, f"q{os.getpid()}_{_XC['n']}_{result}.smt2")
        with open(name, "w") as f: f.write(txt)
    except Exception:
        pass

def solve(constraints):
    r, m = _solve(constraints)
    if r != "unknown": _xcheck_dump(constraints, r)
    return r, m

def _solve(constraints):
    """Decide satisfiability of a list of z3 Bools.  Returns (str result, model|None)."""
    for mk in (_fast_tactic, _qffpbv_tactic):
        try:
            s = mk().solver()
            s.add(*constraints)
            r = s.check()
        except z3.Z3Exception:
            r = z3.unknown
        if r == z3.sat:
            return "sat", s.model()
        if r == z3.unsat:
            return "unsat", None
    s = z3.Solver()
    s.set("timeout", QUERY_TIMEOUT_MS)
    s.add(*constraints)
    r = s.check()
    if r == z3.sat:
        return "sat", s.model()
    if r == z3.unsat:
        return "unsat", None
    return "unknown", None

class Ctx:
    def __init__(self, prefix=()):
        self.pc = []
        self.prefix = list(prefix)
        self.trace = []          # [(decision, alt_feasible)]
        self.nq = 0
        self.tq = 0.0
        self.unknown = 0
        self.model = None
        self.choices = {}
        self.assumptions = []
        self.fresh = 0
        self.notes = {}
        self.truncated = []      # concretisation sites whose enumeration was cut short (the run is then inconclusive)

    def name(self, base):
        self.fresh += 1
        return f"{base}!{self.fresh}"

    def check(self, *extra):
        t = time.time()
        r, m = solve(list(self.pc) + list(extra))
        self.nq += 1
        self.tq += time.time() - t
        if r == "unknown":
            self.unknown += 1
        return r, m

    def assume(self, e, note=None):
        if isinstance(e, SymBool):
            e = e.e
        e = z3.simplify(e)
        if note and note not in self.assumptions:
            self.assumptions.append(note)
        if z3.is_true(e):
            return
        self.pc.append(e)
        if self.model is not None and not z3.is_true(self.model.eval(e, model_completion=True)):
            self.model = None

    def witness(self):
        if self.model is None:
            r, m = self.check()
            if r != "sat":
                raise PathAbort(f"path condition {r}")
            self.model = m
        return self.model

    def branch(self, cond):
        cond = z3.simplify(cond)
        if z3.is_true(cond):
            return True
        if z3.is_false(cond):
            return False
        if getattr(self, "no_fork", False):
            raise HarnessError("the oracle (spec / regions) tried to fork on a symbolic condition: " + str(cond)[:200])
        i = len(self.trace)
        if i < len(self.prefix):
            k = self.prefix[i]
            if k[0] != "b":
                raise HarnessError(f"prefix misaligned at {i}: expected branch, got {k}")
            d = k[1]
            self.trace.append((k, False))
        else:
            m = self.witness()
            mv = z3.is_true(m.eval(cond, model_completion=True))
            r, _ = self.check(z3.Not(cond) if mv else cond)
            d = mv
            self.trace.append((("b", d), r == "sat"))
        self.assume(cond if d else z3.Not(cond))
        return d

    def concretise(self, e, signed=True):
        e = z3.simplify(e)
        if z3.is_bv_value(e):
            return e.as_signed_long() if signed else e.as_long()
        if getattr(self, "no_fork", False):
            raise HarnessError("the oracle (spec / regions) tried to concretise a symbolic value: " + str(e)[:200])
        skipped = 0
        while True:
            i = len(self.trace)
            if i < len(self.prefix):
                k = self.prefix[i]
                if k[0] != "c":
                    raise HarnessError(f"prefix misaligned at {i}: expected value, got {k}")
                self.trace.append((k, False))
                if k[2]:
                    self.assume(e == k[1])
                    return k[1]
                self.assume(e != k[1])
                skipped += 1
                continue
            m = self.witness()
            v = m.eval(e, model_completion=True)
            v = v.as_signed_long() if signed else v.as_long()
            r, _ = self.check(e != v)
            more = r == "sat"
            if more and skipped + 1 >= CONCRETISE_MAX:
                # values are enumerated one path each; a site with more than CONCRETISE_MAX possible values is cut there
                # and reported: the exploration is then incomplete (inconclusive), never silently so
                self.truncated.append(str(z3.simplify(e))[:120])
                more = False
            self.trace.append((("c", v, True), more))
            self.assume(e == v)
            return v

CTX = None
CONCRETISE_MAX = 12

def ctx():
    if CTX is None:
        raise HarnessError("symbolic value needs a concrete outcome outside of a path")
    return CTX

def _alts(c, prefix_len):
    out = []
    decs = [d for d, _ in c.trace]
    for i, (d, alt) in enumerate(c.trace):
        if not alt or i < prefix_len:
            continue
        if d[0] == "b":
            out.append(decs[:i] + [("b", not d[1])])
        else:
            out.append(decs[:i] + [("c", d[1], False)])
    return out

def run_path(fn, prefix):
    """Run fn(ctx) along `prefix`.  Returns (result dict, alternative prefixes)."""
    global CTX
    c = Ctx(prefix)
    CTX = c
    t0 = time.time()
    try:
        res = fn(c)
        res = dict(res or {})
        res.setdefault("status", "ok")
    except PathAbort as e:
        res = {"status": "abort", "detail": str(e)}
    except ModelGap as e:
        res = {"status": "gap", "detail": str(e)}
    except HarnessError as e:
        res = {"status": "harness_error", "detail": str(e), "tb": traceback.format_exc()[-3000:]}
    except RecursionError as e:
        res = {"status": "harness_error", "detail": "RecursionError", "tb": traceback.format_exc()[-3000:]}
    except Exception as e:  # an exception escaping the harness itself is a harness bug
        res = {"status": "harness_error", "detail": f"{type(e).__name__}: {e}", "tb": traceback.format_exc()[-3000:]}
    finally:
        CTX = None
    res["choices"] = dict(c.choices)
    res["nq"] = c.nq
    res["tq"] = c.tq
    res["unknown_queries"] = c.unknown
    res["depth"] = len(c.trace)
    res["wall"] = time.time() - t0
    res["assumptions"] = list(c.assumptions)
    if c.truncated: res["truncated"] = list(c.truncated)
    return res, _alts(c, len(prefix))

# --------------------------------------------------------------------------- exploration

RESOLVER = None      # key -> path function (set by vf.run); resolved inside the worker processes
_FN_CACHE = {}
_POOL = None
_POOL_PROCS = 0

def _resolve(key):
    if key not in _FN_CACHE:
        _FN_CACHE[key] = RESOLVER(key)
    return _FN_CACHE[key]

def _task(args):
    key, prefixes, budget_s, max_local = args
    fn = _resolve(key)
    t0 = time.time()
    stack = list(prefixes)
    done = []
    while stack and len(done) < max_local and time.time() - t0 < budget_s:
        res, alts = run_path(fn, stack.pop())
        done.append(res)
        stack.extend(alts)
    from . import coverage
    return done, stack, coverage.drain()

def _pool(procs):
    """one fork pool for the whole run: workers (and their replay servers) persist across harnesses"""
    global _POOL, _POOL_PROCS
    if _POOL is None or _POOL_PROCS != procs:
        import multiprocessing as mp
        if _POOL is not None:
            _POOL.terminate()
        _POOL = mp.get_context("fork").Pool(procs)
        _POOL_PROCS = procs
    return _POOL

def shutdown():
    global _POOL
    if _POOL is not None:
        _POOL.terminate()
        _POOL = None

def explore(key, procs=None, max_paths=200000, deadline_s=None, on_result=None):
    """Exhaustively enumerate the paths of the function RESOLVER(key).
    Returns (results, complete: bool, coverage)."""
    global _POOL
    from . import coverage
    procs = procs or int(os.environ.get("VF_PROCS", "16"))
    t0 = time.time()
    results = []
    cov = set()
    if procs <= 1:
        fn = _resolve(key)
        stack = [[]]
        while stack:
            if len(results) >= max_paths or (deadline_s and time.time() - t0 > deadline_s):
                return results, False, cov
            res, alts = run_path(fn, stack.pop())
            results.append(res)
            if on_result: on_result(res)
            stack.extend(alts)
        cov |= coverage.drain()
        return results, True, cov
    pool = _pool(procs)
    complete = True
    pending = []
    queue = []
    def submit(prefixes):
        starving = len(pending) + len(queue) < procs * 2
        budget = (0.02, 1) if starving else (1.0, 64)
        pending.append(pool.apply_async(_task, ((key, prefixes) + budget,)))
    submit([[]])
    while pending or queue:
        if len(results) >= max_paths or (deadline_s and time.time() - t0 > deadline_s):
            complete = False
            break
        while queue and len(pending) < procs * 2:
            submit([queue.pop()])
        still = []
        progressed = False
        for p in pending:
            if p.ready():
                done, left, c = p.get()
                cov |= c
                for r in done:
                    results.append(r)
                    if on_result: on_result(r)
                queue.extend(left)
                progressed = True
            else:
                still.append(p)
        pending = still
        if not progressed:
            time.sleep(0.003)
    if not complete:
        # abandon outstanding work: restart the pool so that stale tasks cannot interfere
        pool.terminate()
        _POOL = None
    cov |= coverage.drain()
    return results, complete, cov

# --------------------------------------------------------------------------- symbolic scalars

NPCLS = {}   # filled by symnp: the NumPy scalar classes symbolic scalars report as their __class__

def _is_sym(o):
    return isinstance(o, (SymBool, SymI64, SymF64, SymDT, SymStr))

class SymBool:
    """np.bool_ with a symbolic value."""
    __slots__ = ("e",)
    @property
    def __class__(self):
        return NPCLS.get("bool_", type(self))
    @property
    def dtype(self):
        return NPCLS["dtype_of"](self)

    def __init__(self, e):
        self.e = e if z3.is_expr(e) else z3.BoolVal(bool(e))
    def __bool__(self):
        return ctx().branch(self.e)
    def __invert__(self):
        return SymBool(z3.Not(self.e))
    def __and__(self, o):
        b = _b(o)
        return NotImplemented if b is None else SymBool(z3.And(self.e, b))
    __rand__ = __and__
    def __or__(self, o):
        b = _b(o)
        return NotImplemented if b is None else SymBool(z3.Or(self.e, b))
    __ror__ = __or__
    def __xor__(self, o):
        b = _b(o)
        return NotImplemented if b is None else SymBool(z3.Xor(self.e, b))
    __rxor__ = __xor__
    def _cmp(self, o, f):
        b = _b(o)
        if b is not None:
            return SymBool(f(self.e, b))
        if isinstance(o, (int, SymI64, float, SymF64)):
            return getattr(self.as_i64(), f.__name__)(o)
        return NotImplemented
    def __eq__(self, o):
        b = _b(o)
        if b is not None:
            return SymBool(self.e == b)
        if isinstance(o, (int, SymI64, float, SymF64)):
            return self.as_i64() == o
        return False
    def __ne__(self, o):
        r = self.__eq__(o)
        return (not r) if isinstance(r, bool) else ~r
    def __lt__(self, o):
        b = _b(o)
        if b is not None: return SymBool(z3.And(z3.Not(self.e), b))
        return self.as_i64() < o
    def __gt__(self, o):
        b = _b(o)
        if b is not None: return SymBool(z3.And(self.e, z3.Not(b)))
        return self.as_i64() > o
    def __le__(self, o):
        b = _b(o)
        if b is not None: return SymBool(z3.Or(z3.Not(self.e), b))
        return self.as_i64() <= o
    def __ge__(self, o):
        b = _b(o)
        if b is not None: return SymBool(z3.Or(self.e, z3.Not(b)))
        return self.as_i64() >= o
    def __hash__(self):
        return 0
    def __neg__(self):
        raise TypeError("The numpy boolean negative, the `-` operator, is not supported, "
                        "use the `~` operator or the logical_not function instead.")
    def as_i64(self):
        return SymI64(z3.If(self.e, z3.BitVecVal(1, 64), z3.BitVecVal(0, 64)))
    def any(self): return self
    def all(self): return self
    def __add__(self, o):
        if isinstance(o, (SymBool, bool)) and not isinstance(o, int):
            return self | o
        return self.as_i64() + o
    __radd__ = __add__
    def __int__(self):
        return 1 if bool(self) else 0
    def __float__(self):
        return float(int(self))
    def item(self):
        return self
    def __repr__(self):
        return f"SymBool({z3.simplify(self.e)})"
    __str__ = lambda self: str(bool(self))
    def __format__(self, spec):
        return format(bool(self), spec)

def _b(o):
    if isinstance(o, SymBool):
        return o.e
    if isinstance(o, bool):
        return z3.BoolVal(o)
    return None

def ALL(xs):
    xs = [x.e if isinstance(x, SymBool) else x if z3.is_expr(x) else z3.BoolVal(bool(x)) for x in xs]
    return SymBool(z3.And(xs) if xs else z3.BoolVal(True))

def ANY(xs):
    xs = [x.e if isinstance(x, SymBool) else x if z3.is_expr(x) else z3.BoolVal(bool(x)) for x in xs]
    return SymBool(z3.Or(xs) if xs else z3.BoolVal(False))

def fp_of_bv(e):
    return z3.fpSignedToFP(RNE, e, F64)

def fpval(x):
    x = float(x)
    if x != x:
        return z3.fpNaN(F64)
    if x == float("inf"):
        return z3.fpPlusInfinity(F64)
    if x == float("-inf"):
        return z3.fpMinusInfinity(F64)
    import struct
    bits = struct.unpack("<Q", struct.pack("<d", x))[0]
    return z3.fpBVToFP(z3.BitVecVal(bits, 64), F64)

class SymI64:
    """np.int64 with a symbolic value (wraps like the machine type)."""
    __slots__ = ("e",)
    @property
    def __class__(self):
        return NPCLS.get("int64", type(self))
    @property
    def dtype(self):
        return NPCLS["dtype_of"](self)

    def __init__(self, e):
        self.e = e if z3.is_expr(e) else z3.BitVecVal(int(e), 64)
    @staticmethod
    def lift(o):
        if isinstance(o, SymI64): return o.e
        if isinstance(o, SymBool): return o.as_i64().e
        if isinstance(o, bool): return z3.BitVecVal(int(o), 64)
        if isinstance(o, int):
            if not INT64_MIN <= o <= INT64_MAX:
                raise OverflowError("Python integer out of bounds for int64")
            return z3.BitVecVal(o, 64)
        return None
    def _arith(self, o, f, ff, swap=False):
        b = SymI64.lift(o)
        if b is not None:
            e = f(b, self.e) if swap else f(self.e, b)
            cls = type(self) if (type(o) is type(self) or type(o) in (int, bool)) else SymI64
            return cls(e)
        fb = SymF64.lift(o)
        if fb is not None and ff is not None:
            a = fp_of_bv(self.e)
            return SymF64(ff(RNE, fb, a) if swap else ff(RNE, a, fb))
        return NotImplemented
    def _cmp(self, o, f, ff):
        b = SymI64.lift(o)
        if b is not None:
            return SymBool(f(self.e, b))
        fb = SymF64.lift(o)
        if fb is not None:
            return SymBool(ff(fp_of_bv(self.e), fb))
        return NotImplemented
    def __eq__(self, o):
        r = self._cmp(o, lambda a, b: a == b, z3.fpEQ)
        return False if r is NotImplemented else r
    def __ne__(self, o):
        r = self._cmp(o, lambda a, b: a != b, z3.fpNEQ)
        return True if r is NotImplemented else r
    def __lt__(self, o): return self._cmp(o, lambda a, b: a < b, z3.fpLT)
    def __le__(self, o): return self._cmp(o, lambda a, b: a <= b, z3.fpLEQ)
    def __gt__(self, o): return self._cmp(o, lambda a, b: a > b, z3.fpGT)
    def __ge__(self, o): return self._cmp(o, lambda a, b: a >= b, z3.fpGEQ)
    def __add__(self, o): return self._arith(o, lambda a, b: a + b, z3.fpAdd)
    __radd__ = __add__
    def __sub__(self, o): return self._arith(o, lambda a, b: a - b, z3.fpSub)
    def __rsub__(self, o): return self._arith(o, lambda a, b: a - b, z3.fpSub, swap=True)
    def __mul__(self, o): return self._arith(o, lambda a, b: a * b, z3.fpMul)
    __rmul__ = __mul__
    def __truediv__(self, o):
        fb = SymF64.lift(o)
        if fb is None: return NotImplemented
        return SymF64(z3.fpDiv(RNE, fp_of_bv(self.e), fb))
    def __rtruediv__(self, o):
        fb = SymF64.lift(o)
        if fb is None: return NotImplemented
        return SymF64(z3.fpDiv(RNE, fb, fp_of_bv(self.e)))
    def _divmod_const(self, o):
        # floor division / modulo by a positive Python constant (NumPy and Python agree: the remainder takes the divisor's sign)
        if isinstance(o, SymI64):
            k = z3.simplify(o.e)
            if not z3.is_bv_value(k): raise ModelGap("integer division by a symbolic divisor")
            o = k.as_signed_long()
        if not isinstance(o, int) or isinstance(o, bool) or o <= 0: raise ModelGap(f"integer division / modulo by {o!r}")
        k = z3.BitVecVal(o, 64)
        r = z3.SRem(self.e, k)
        r = z3.If(r < 0, r + k, r)
        return (self.e - r) / k, r
    def __mod__(self, o):
        if SymF64.lift(o) is not None and SymI64.lift(o) is None: return NotImplemented
        return type(self)(self._divmod_const(o)[1])
    def __floordiv__(self, o):
        if SymF64.lift(o) is not None and SymI64.lift(o) is None: return NotImplemented
        return type(self)(self._divmod_const(o)[0])
    def __neg__(self): return type(self)(-self.e)
    def __pos__(self): return self
    def __abs__(self): return type(self)(z3.If(self.e < 0, -self.e, self.e))
    def __hash__(self): return 0
    def __bool__(self): return ctx().branch(self.e != 0)
    def __index__(self): return ctx().concretise(self.e)
    __int__ = __index__
    def __float__(self): return float(self.__index__())
    def __format__(self, spec): return format(self.__index__(), spec)
    def __str__(self): return str(self.__index__())
    def __repr__(self): return f"{type(self).__name__}({z3.simplify(self.e)})"
    def item(self): return self

class SymPyInt(SymI64):
    """A Python int (within int64) with a symbolic value; isinstance(x, int) holds."""
    __slots__ = ()
    __class__ = int

class SymF64:
    """np.float64 with a symbolic value (IEEE-754 binary64, round-to-nearest-even)."""
    __slots__ = ("e",)
    @property
    def __class__(self):
        return NPCLS.get("float64", type(self))
    @property
    def dtype(self):
        return NPCLS["dtype_of"](self)

    def __init__(self, e):
        self.e = e if z3.is_expr(e) else fpval(e)
    @staticmethod
    def lift(o):
        if isinstance(o, SymF64): return o.e
        if isinstance(o, SymI64): return fp_of_bv(o.e)
        if isinstance(o, SymBool): return fp_of_bv(o.as_i64().e)
        if isinstance(o, (bool, int, float)):
            try:
                return fpval(o)
            except OverflowError:
                return None
        return None
    def _c(self, o, f):
        b = SymF64.lift(o)
        return NotImplemented if b is None else SymBool(f(self.e, b))
    def _a(self, o, f, swap=False):
        b = SymF64.lift(o)
        if b is None: return NotImplemented
        return type(self)(f(RNE, b, self.e) if swap else f(RNE, self.e, b))
    def __eq__(self, o):
        r = self._c(o, z3.fpEQ)
        return False if r is NotImplemented else r
    def __ne__(self, o):
        r = self._c(o, z3.fpNEQ)
        return True if r is NotImplemented else r
    def __lt__(self, o): return self._c(o, z3.fpLT)
    def __le__(self, o): return self._c(o, z3.fpLEQ)
    def __gt__(self, o): return self._c(o, z3.fpGT)
    def __ge__(self, o): return self._c(o, z3.fpGEQ)
    def __add__(self, o): return self._a(o, z3.fpAdd)
    __radd__ = __add__
    def __sub__(self, o): return self._a(o, z3.fpSub)
    def __rsub__(self, o): return self._a(o, z3.fpSub, swap=True)
    def __mul__(self, o): return self._a(o, z3.fpMul)
    __rmul__ = __mul__
    def __truediv__(self, o): return self._a(o, z3.fpDiv)
    def __rtruediv__(self, o): return self._a(o, z3.fpDiv, swap=True)
    def __neg__(self): return type(self)(z3.fpNeg(self.e))
    def __pos__(self): return self
    def __abs__(self): return type(self)(z3.fpAbs(self.e))
    def __hash__(self): return 0
    def __bool__(self): return ctx().branch(z3.Not(z3.fpIsZero(self.e)))
    def bits(self):
        return z3.fpToIEEEBV(self.e)
    def __float__(self):
        c = ctx()
        if c.branch(z3.fpIsNaN(self.e)):
            return float("nan")
        if c.branch(z3.fpIsInf(self.e)):
            return float("-inf") if c.branch(z3.fpIsNegative(self.e)) else float("inf")
        if c.branch(z3.fpIsZero(self.e)):
            return -0.0 if c.branch(z3.fpIsNegative(self.e)) else 0.0
        import struct
        v = c.concretise(self.bits(), signed=False)
        return struct.unpack("<d", struct.pack("<Q", v))[0]
    def __int__(self): return int(float(self))
    def __format__(self, spec): return format(float(self), spec)
    def __str__(self): return str(float(self))
    def __repr__(self): return f"{type(self).__name__}({z3.simplify(self.e)})"
    def item(self): return self
    def is_integer(self): return float(self).is_integer()
    def astype(self, t):
        if t is int or getattr(t, "__name__", "") == "int64":
            c = ctx()
            if c.branch(z3.Or(z3.fpIsNaN(self.e), z3.fpIsInf(self.e))):
                raise ValueError("cannot convert float NaN to integer")
            return SymI64(z3.fpToSBV(z3.RTZ(), self.e, z3.BitVecSort(64)))
        if t is float: return self
        raise ModelGap(f"scalar astype({t})")

class SymPyFloat(SymF64):
    __slots__ = ()
    __class__ = float

class SymPyBool(SymBool):
    """A Python bool with a symbolic value; isinstance(x, bool) holds."""
    __slots__ = ()
    __class__ = bool
    def __invert__(self):
        # a Python bool is an int: ~True == -2, ~False == -1 (np.bool_ inverts logically, see SymBool)
        return SymPyInt(z3.If(self.e, z3.BitVecVal(-2, 64), z3.BitVecVal(-1, 64)))

# datetime units: ticks per day for D; relation between units
import fractions as _fr
_UNIT_FACTOR = {"D": 86400 * 10**6, "h": 3600 * 10**6, "m": 60 * 10**6, "s": 10**6, "ms": 1000, "us": 1, "ns": _fr.Fraction(1, 1000)}

def unit_ratio(fm, to):
    """integer k such that ticks_to = ticks_fm * k  (fm coarser than or equal to `to`)."""
    r = _fr.Fraction(_UNIT_FACTOR[fm]) / _fr.Fraction(_UNIT_FACTOR[to])
    if r.denominator != 1:
        raise ModelGap(f"datetime unit conversion {fm}->{to} (to coarser unit)")
    return int(r)

def _is_nat(e):
    t = z3.simplify(e == INT64_MIN)
    if z3.is_true(t): return True
    if z3.is_false(t): return False
    return ctx().branch(t)

class SymDT:
    """np.datetime64 scalar with symbolic ticks; NaT == INT64_MIN."""
    __slots__ = ("e", "unit")
    @property
    def __class__(self):
        return NPCLS.get("datetime64", type(self))
    @property
    def dtype(self):
        return NPCLS["dtype_of"](self)

    def __init__(self, e, unit):
        self.e = e if z3.is_expr(e) else z3.BitVecVal(int(e), 64)
        self.unit = unit
    def isnat(self):
        return SymBool(self.e == INT64_MIN)
    def to_unit(self, unit):
        if unit == self.unit or unit == "generic" or self.unit == "generic":
            return self.e
        k = unit_ratio(self.unit, unit)
        return z3.If(self.e == INT64_MIN, self.e, self.e * k)
    @staticmethod
    def common(a, b):
        if a.unit == b.unit or b.unit == "generic": return a.unit
        if a.unit == "generic": return b.unit
        return a.unit if _UNIT_FACTOR[a.unit] < _UNIT_FACTOR[b.unit] else b.unit
    def _c(self, o, f, nat_result=False):
        if not isinstance(o, SymDT): return NotImplemented
        u = SymDT.common(self, o)
        a, b = self.to_unit(u), o.to_unit(u)
        ok = z3.And(a != INT64_MIN, b != INT64_MIN)
        return SymBool(z3.If(ok, f(a, b), z3.BoolVal(nat_result)))
    def __eq__(self, o):
        r = self._c(o, lambda a, b: a == b)
        return False if r is NotImplemented else r
    def __ne__(self, o):
        r = self._c(o, lambda a, b: a != b, nat_result=True)
        return True if r is NotImplemented else r
    def __lt__(self, o): return self._c(o, lambda a, b: a < b)
    def __gt__(self, o): return self._c(o, lambda a, b: a > b)
    def __le__(self, o): return self._c(o, lambda a, b: a <= b)
    def __ge__(self, o): return self._c(o, lambda a, b: a >= b)
    def __sub__(self, o):
        if isinstance(o, SymTD):
            u = self.unit if o.unit == "generic" else SymDT.common(self, SymDT(0, o.unit))
            a = self.to_unit(u)
            b = o.e if o.unit in ("generic", u) else o.e * unit_ratio(o.unit, u)
            return SymDT(z3.If(z3.Or(a == INT64_MIN, o.e == INT64_MIN), z3.BitVecVal(INT64_MIN, 64), a - b), u)
        return NotImplemented
    def __add__(self, o):
        if isinstance(o, SymTD):
            return self - SymTD(-o.e, o.unit)
        return NotImplemented
    def __hash__(self): return 0
    def __repr__(self): return f"SymDT({z3.simplify(self.e)},{self.unit})"
    def __str__(self):
        from . import symdt
        return symdt.iso_text(self.e, self.unit)
    def strftime(self, fmt):
        from . import symdt
        return symdt.StrfToken(self.e, self.unit, fmt)
    def item(self):
        # datetime64('NaT').item() is None; any other value becomes a date / datetime, for which this scalar stands
        # (the codecs write both the same way)
        return None if _is_nat(self.e) else self

class SymTD:
    """np.timedelta64 scalar (concrete or symbolic ticks)."""
    __slots__ = ("e", "unit")
    @property
    def __class__(self):
        return NPCLS.get("timedelta64", type(self))
    @property
    def dtype(self):
        return NPCLS["dtype_of"](self)

    def __init__(self, e, unit="generic"):
        self.e = e if z3.is_expr(e) else z3.BitVecVal(int(e), 64)
        self.unit = unit
    def _c(self, o, f, nat_result=False):
        if not isinstance(o, SymTD): return NotImplemented
        if self.unit != o.unit and "generic" not in (self.unit, o.unit):
            raise ModelGap("timedelta comparison across units")
        ok = z3.And(self.e != INT64_MIN, o.e != INT64_MIN)
        return SymBool(z3.If(ok, f(self.e, o.e), z3.BoolVal(nat_result)))
    def __eq__(self, o):
        r = self._c(o, lambda a, b: a == b)
        return False if r is NotImplemented else r
    def __ne__(self, o):
        r = self._c(o, lambda a, b: a != b, nat_result=True)
        return True if r is NotImplemented else r
    def __lt__(self, o): return self._c(o, lambda a, b: a < b)
    def __gt__(self, o): return self._c(o, lambda a, b: a > b)
    def __le__(self, o): return self._c(o, lambda a, b: a <= b)
    def __ge__(self, o): return self._c(o, lambda a, b: a >= b)
    def isnat(self): return SymBool(self.e == INT64_MIN)
    def item(self): return None if _is_nat(self.e) else self
    def __repr__(self): return f"SymTD({z3.simplify(self.e)},{self.unit})"
    def __hash__(self): return 0

# --------------------------------------------------------------------------- bounded strings

STR_K = int(os.environ.get("VF_STR_K", "2"))   # free code points per string
STR_TAIL = 50                                  # optional fixed tail of 50 x "a"
CP = z3.BitVecSort(21)

class StrCell:
    """Bounded symbolic string:  head + rest
       head: n <= K free code points;
       rest (only when n == K):  ""  |  "a"*50  |  "a"*50 + one free code point (sfx)  |  "a"*48 (`cut`: what remains of a
       long string truncated to 50 characters, K = 2).
    Lengths 0..K, K+50, K+51 (and 50 for cut cells): both sides of dataiter's 50-character switch, and pairs of
    long strings that differ only beyond the 50th character."""
    __slots__ = ("n", "ch", "tail", "sfx", "cut")
    def __init__(self, n, ch, tail, sfx=None, cut=None):
        self.n = n; self.ch = ch; self.tail = tail
        self.sfx = sfx if sfx is not None else z3.BitVecVal(0, 21)
        self.cut = cut if cut is not None else z3.BoolVal(False)
    @staticmethod
    def sym(name, allow_tail=True, c=None):
        c = c or ctx()
        s = StrCell(z3.BitVec(name + "_n", 8), [z3.BitVec(f"{name}_c{j}", 21) for j in range(STR_K)],
                    z3.Bool(name + "_t") if allow_tail else z3.BoolVal(False),
                    z3.BitVec(name + "_s", 21) if allow_tail else z3.BitVecVal(0, 21))
        c.assume(z3.ULE(s.n, STR_K))
        def okcp(x): return z3.And(z3.UGE(x, 1), z3.ULE(x, 0x10FFFF), z3.Or(z3.ULT(x, 0xD800), z3.UGT(x, 0xDFFF)))
        for j in range(STR_K):
            c.assume(z3.If(z3.UGT(s.n, j), okcp(s.ch[j]), s.ch[j] == 0))
        c.assume(z3.Implies(s.tail, s.n == STR_K))
        if allow_tail:
            c.assume(z3.If(s.tail, z3.Or(s.sfx == 0, okcp(s.sfx)), s.sfx == 0))
        return s
    @staticmethod
    def lit(s):
        head = s[:STR_K]; rest = s[STR_K:]
        if any(ord(c) == 0 for c in s):
            raise ModelGap("NUL in string literal")
        tail = False; sfx = 0; cut = False
        if rest == "": pass
        elif rest == "a" * STR_TAIL: tail = True
        elif len(rest) == STR_TAIL + 1 and rest[:STR_TAIL] == "a" * STR_TAIL: tail = True; sfx = ord(rest[-1])
        elif rest == "a" * (STR_TAIL - STR_K): cut = True
        else: raise ModelGap(f"string literal {s!r} outside the bounded string domain")
        return StrCell(z3.BitVecVal(len(head), 8),
                       [z3.BitVecVal(ord(head[j]) if j < len(head) else 0, 21) for j in range(STR_K)],
                       z3.BoolVal(tail), z3.BitVecVal(sfx, 21), z3.BoolVal(cut))
    def eq(self, o):
        return z3.And(self.n == o.n, self.tail == o.tail, self.sfx == o.sfx, self.cut == o.cut, *[a == b for a, b in zip(self.ch, o.ch)])
    def _rest_rank(self):
        # "" < "a"*48 < "a"*50 < "a"*50 + c
        return z3.If(self.cut, z3.BitVecVal(1, 8), z3.If(self.tail, z3.If(self.sfx == 0, z3.BitVecVal(2, 8), z3.BitVecVal(3, 8)), z3.BitVecVal(0, 8)))
    def lt(self, o):
        ra, rb = self._rest_rank(), o._rest_rank()
        res = z3.Or(z3.ULT(ra, rb), z3.And(ra == 3, rb == 3, z3.ULT(self.sfx, o.sfx)))     # equal heads of full length
        for j in reversed(range(STR_K)):
            ae, be = z3.ULE(self.n, j), z3.ULE(o.n, j)
            res = z3.If(z3.And(ae, be), z3.BoolVal(False), z3.If(ae, z3.BoolVal(True), z3.If(be, z3.BoolVal(False),
                  z3.If(self.ch[j] == o.ch[j], res, z3.ULT(self.ch[j], o.ch[j])))))
        return res
    def length(self):
        return z3.ZeroExt(56, self.n) + z3.If(self.cut, z3.BitVecVal(STR_TAIL - STR_K, 64), z3.If(self.tail, z3.BitVecVal(STR_TAIL, 64), z3.BitVecVal(0, 64))) + \
            z3.If(self.sfx == 0, z3.BitVecVal(0, 64), z3.BitVecVal(1, 64))
    def is_empty(self):
        return self.n == 0
    def truncated(self, width):
        """the first `width` characters (fixed-width store); only the widths that occur are modelled"""
        if width >= STR_K + STR_TAIL + 1: return self
        if width <= STR_K:
            w = z3.BitVecVal(width, 8)
            return StrCell(z3.If(z3.ULT(self.n, w), self.n, w),
                           [self.ch[j] if j < width else z3.BitVecVal(0, 21) for j in range(STR_K)],
                           z3.BoolVal(False), z3.BitVecVal(0, 21), z3.BoolVal(False))
        if width == STR_TAIL and STR_K <= STR_TAIL:
            long = self.tail            # K + 50 (+1) characters -> K + 48
            return StrCell(self.n, self.ch, z3.And(self.tail, z3.BoolVal(False)), z3.BitVecVal(0, 21), z3.Or(self.cut, long))
        return None
    def universal_newlines(self):
        """the text as it comes out of a file object opened in text mode without newline="": a lone CR and CR LF become LF"""
        CR, LF = z3.BitVecVal(0x0D, 21), z3.BitVecVal(0x0A, 21)
        tr = [z3.If(c == CR, LF, c) for c in self.ch]
        if STR_K == 2:
            crlf = z3.And(self.n == 2, self.ch[0] == CR, self.ch[1] == LF, z3.Not(self.tail), z3.Not(self.cut))
            n = z3.If(crlf, z3.BitVecVal(1, 8), self.n)
            ch = [z3.If(crlf, LF, tr[0]), z3.If(crlf, z3.BitVecVal(0, 21), tr[1])]
        else:
            n, ch = self.n, tr
        return StrCell(n, ch, self.tail, z3.If(self.sfx == CR, LF, self.sfx), self.cut)
    @staticmethod
    def ite(c, a, b):
        return StrCell(z3.If(c, a.n, b.n), [z3.If(c, x, y) for x, y in zip(a.ch, b.ch)], z3.If(c, a.tail, b.tail),
                       z3.If(c, a.sfx, b.sfx), z3.If(c, a.cut, b.cut))
    def concrete(self, m):
        n = m.eval(self.n, model_completion=True).as_long()
        s = "".join(chr(m.eval(self.ch[j], model_completion=True).as_long()) for j in range(n))
        if z3.is_true(m.eval(self.cut, model_completion=True)): s += "a" * (STR_TAIL - STR_K)
        elif z3.is_true(m.eval(self.tail, model_completion=True)): s += "a" * STR_TAIL
        sf = m.eval(self.sfx, model_completion=True).as_long()
        return s + (chr(sf) if sf else "")
    def is_const(self):
        def lit(e):
            e = z3.simplify(e); return z3.is_bv_value(e) or z3.is_true(e) or z3.is_false(e)
        return lit(self.n) and all(lit(c) for c in self.ch) and lit(self.tail) and lit(self.sfx) and lit(self.cut)

FORMAT_HOOK = [None]    # when set: SymStr -> text conversions produce a placeholder token instead of forking over contents

def tocell(v):
    if isinstance(v, SymStr): return v.c
    if isinstance(v, StrCell): return v
    if isinstance(v, str): return StrCell.lit(v)
    return None

class SymStr:
    """A Python str with symbolic content (an element of a string array)."""
    __slots__ = ("c",)
    __class__ = str
    def __init__(self, c):
        self.c = c
    def _c(self, o, f):
        b = tocell(o)
        return NotImplemented if b is None else SymBool(f(self.c, b))
    def __eq__(self, o):
        r = self._c(o, StrCell.eq)
        return False if r is NotImplemented else r
    def __ne__(self, o):
        r = self._c(o, lambda a, b: z3.Not(a.eq(b)))
        return True if r is NotImplemented else r
    def __lt__(self, o): return self._c(o, StrCell.lt)
    def __gt__(self, o): return self._c(o, lambda a, b: b.lt(a))
    def __le__(self, o): return self._c(o, lambda a, b: z3.Not(b.lt(a)))
    def __ge__(self, o): return self._c(o, lambda a, b: z3.Not(a.lt(b)))
    def __hash__(self): return 0
    def __len__(self): return ctx().concretise(self.c.length())
    def __bool__(self): return ctx().branch(z3.Not(self.c.is_empty()))
    def realise(self):
        """Concretise the whole string (forks over all contents: use sparingly)."""
        c = ctx()
        n = c.concretise(z3.ZeroExt(56, self.c.n))
        s = "".join(chr(c.concretise(z3.ZeroExt(43, self.c.ch[j]))) for j in range(n))
        s += "a" * (STR_TAIL - STR_K) if c.branch(self.c.cut) else ("a" * STR_TAIL if c.branch(self.c.tail) else "")
        sf = c.concretise(z3.ZeroExt(43, self.c.sfx))
        return s + (chr(sf) if sf else "")
    def __str__(self):
        if FORMAT_HOOK[0] is not None: return FORMAT_HOOK[0](self, "")
        return self.realise()
    def __repr__(self): return "SymStr"
    def __format__(self, spec):
        if FORMAT_HOOK[0] is not None: return FORMAT_HOOK[0](self, spec)
        return format(self.realise(), spec)

# --------------------------------------------------------------------------- helpers for harnesses

def choice(name, options):
    """Pick one of `options` (all explored).  Enumeration through the solver, in fixed order."""
    c = ctx()
    options = list(options)
    if len(options) == 1:
        c.choices[name] = _short(options[0])
        return options[0]
    v = z3.BitVec(c.name("ch_" + name), 8)
    c.assume(z3.ULT(v, len(options)))
    pick = options[-1]
    for i in range(len(options) - 1):
        if c.branch(v == i):
            pick = options[i]
            break
    c.choices[name] = _short(pick)
    return pick

def _short(o):
    r = repr(o)
    return r if len(r) <= 60 else r[:57] + "..."

def sym_f64(name): return z3.FP(ctx().name(name), F64)
def sym_i64(name): return z3.BitVec(ctx().name(name), 64)
def sym_bool(name): return z3.Bool(ctx().name(name))
def sym_str(name, allow_tail=True): return StrCell.sym(ctx().name(name), allow_tail)

def sym_int_range(name, lo, hi):
    v = z3.BitVec(ctx().name(name), 64)
    ctx().assume(z3.And(v >= lo, v <= hi))
    return v

def ident(a, b):
    """z3 Bool: cells a and b are identical values (NaN == NaN, -0.0 != +0.0)."""
    if isinstance(a, StrCell) or isinstance(b, StrCell):
        a, b = tocell(a), tocell(b)
        return a.eq(b)
    if isinstance(a, str) and isinstance(b, str):
        return z3.BoolVal(a == b)
    if z3.is_expr(a) and z3.is_expr(b):
        if a.sort() != b.sort():
            return z3.BoolVal(False)
        return a == b
    return z3.BoolVal(a is b or (type(a) is type(b) and a == b))
