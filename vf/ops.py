"""World-agnostic operations: the same function body drives the real dataiter code in the
symbolic process (dataiter over symnp) and in the replay process (dataiter over real NumPy).

Each op receives materialised inputs (a dict of live objects) and the world W (W.di, W.np,
W.shares, W.sym) and returns live objects that the world's codec turns into a value tree.
Nothing here may import z3 or numpy at module level.
"""

OPS = {}

def _library_slots():
    """(key, owner, attribute) of everything a call must leave alone: default arguments of every function and method of
    the package, and the mutable containers that are class attributes (a call that edits one changes the behaviour of
    every later call)"""
    import sys, types
    out = []
    def fun(key, f):
        f = getattr(f, "__func__", f)
        depth = 0
        while f is not None and depth < 5:           # decorated functions: the wrapper and what it wraps
            if isinstance(f, types.FunctionType):
                if f.__defaults__: out.append((f"{key}.__defaults__@{depth}", f, "__defaults__"))
                if f.__kwdefaults__: out.append((f"{key}.__kwdefaults__@{depth}", f, "__kwdefaults__"))
            f = getattr(f, "__wrapped__", None); depth += 1
    for mname, mod in list(sys.modules.items()):
        if not (mname == "dataiter" or mname.startswith("dataiter.")) or ".test" in mname or mod is None: continue
        for name, v in list(vars(mod).items()):
            if isinstance(v, types.FunctionType) and getattr(v, "__module__", None) == mname:
                fun(f"{mname}.{name}", v)
            elif isinstance(v, type) and getattr(v, "__module__", None) == mname:
                for an, av in list(vars(v).items()):
                    if isinstance(av, (types.FunctionType, classmethod, staticmethod)):
                        fun(f"{mname}.{name}.{an}", av)
                    elif isinstance(av, (dict, list, set)):
                        out.append((f"{mname}.{name}.{an}", v, an))
    return out

def _rep(v):
    try: return repr(v)
    except Exception as e: return f"<unreprable {type(e).__name__}>"

_PRISTINE = {}

def _library_state_check():
    """names of the slots that differ from their state at the first operation of this process; each is put back (so that
    the finding does not depend on what ran before in the same process)"""
    import copy
    slots = _library_slots()
    if not _PRISTINE:
        for key, owner, attr in slots:
            v = getattr(owner, attr)
            try: saved = copy.deepcopy(v)
            except Exception: saved = None
            _PRISTINE[key] = (_rep(v), saved)
        return []
    changed = []
    seen = set()
    for key, owner, attr in slots:
        seen.add(key)
        if key not in _PRISTINE:
            changed.append(key); continue
        r0, saved = _PRISTINE[key]
        if _rep(getattr(owner, attr)) != r0:
            changed.append(key)
            if saved is not None:
                try: setattr(owner, attr, copy.deepcopy(saved))
                except Exception: pass
    changed += [k for k in _PRISTINE if k not in seen]
    return sorted(changed)

def op(f):
    import functools
    @functools.wraps(f)
    def call(inp, W):
        if isinstance(inp, dict) and inp.get("prep") == "deepcopy":
            # operands that are themselves results of an earlier operation: their columns own their memory, whereas the
            # columns of a freshly constructed frame are views of the arrays given
            inp = dict(inp)
            for k in ("data", "a", "b"):
                if hasattr(inp.get(k), "deepcopy"): inp[k] = inp[k].deepcopy()
        _library_state_check()          # first call: records the pristine state; later: restores what a raising op left behind
        r = f(inp, W)
        changed = _library_state_check()
        if changed and isinstance(r, dict):
            # reported only when it happened, so that results on an intact library are unchanged
            r["library_state_changed"] = changed
        return r
    OPS[f.__name__] = call
    return call

class RealWorld:
    sym = False
    def __init__(self):
        import numpy as np
        import dataiter as di
        self.np = np
        self.di = di
    def shares(self, a, b):
        return bool(self.np.shares_memory(a, b))

class SymWorld:
    sym = True
    def __init__(self):
        from . import env, symnp
        self.di = env.load()
        self.np = symnp
    def shares(self, a, b):
        return self.np.shares_memory(a, b)

# ---------------------------------------------------------------------------- helpers

def _frame_alias(W, out, *inputs):
    """names of result columns that share memory with any column of any input frame"""
    bad = []
    if not isinstance(out, dict):
        return bad
    for name, col in dict.items(out):
        for k, f in enumerate(inputs):
            for iname, icol in dict.items(f):
                if W.shares(col, icol):
                    bad.append([name, k, iname])
    return bad

def _mk_condition(W, data, cond):
    """filter conditions in the three interchangeable forms of the documentation"""
    kind = cond["kind"]
    if kind == "mask":
        return (cond["mask"],), {}
    if kind == "kw":
        return (), {cond["col"]: cond["value"]}
    if kind == "kw2":
        return (), {cond["col"]: cond["value"], cond["col2"]: cond["value2"]}
    if kind == "lambda":
        col, value = cond["col"], cond["value"]
        return ((lambda d: d[col] == value),), {}
    if kind == "expr":
        return ((data[cond["col"]] == cond["value"]),), {}
    raise ValueError(kind)

# ---------------------------------------------------------------------------- C02 row subsetting

@op
def df_subset(inp, W):
    """inp: data (DataFrame), method, and per-method arguments"""
    data = inp["data"]
    m = inp["method"]
    if m in ("filter", "filter_out"):
        a, k = _mk_condition(W, data, inp["cond"])
        out = getattr(data, m)(*a, **k)
    elif m in ("slice", "slice_off"):
        rows = inp["rows"]
        if rows is not None and inp.get("rows_form", "array") != "array":
            # the same positions as a list or as a one-shot iterator (the library accepts any iterable)
            rows = [x for x in rows]
            if inp["rows_form"] == "iter": rows = (x for x in rows)
        out = getattr(data, m)(rows=rows, cols=inp.get("cols"))
    elif m in ("head", "tail"):
        out = getattr(data, m)(inp["n"])
    elif m == "drop_na":
        out = data.drop_na(*inp["cols"])
    elif m == "unique":
        out = data.unique(*inp["cols"])
    elif m == "sample":
        # environment stub for the RNG: the draw is an input (arbitrary distinct indices, any order)
        draw = inp["draw"]
        orig = W.np.random.choice
        W.np.random.choice = lambda n, size=None, replace=True: draw
        try:
            out = data.sample(inp["n"])
        finally:
            W.np.random.choice = orig
    else:
        raise ValueError(m)
    return {"out": out, "recv": data, "alias": _frame_alias(W, out, data)}

# ---------------------------------------------------------------------------- C03 sort

@op
def df_sort_twice(inp, W):
    """sort, edit the key column in place, sort again (state kept on column objects must not leak)"""
    data = inp["data"]
    by = {name: d for name, d in inp["by"]}
    first = data.sort(**by)
    col = data[inp["by"][0][0]]
    for i, v in enumerate(inp["new"]):
        col[i] = v
    out = data.sort(**by)
    return {"out": out, "recv": data, "alias": _frame_alias(W, out, data)}

@op
def df_sort(inp, W):
    data = inp["data"]
    out = data.sort(**{name: d for name, d in inp["by"]})
    return {"out": out, "recv": data, "alias": _frame_alias(W, out, data)}

# ---------------------------------------------------------------------------- C04 grouping

@op
def df_group(inp, W):
    data = inp["data"]
    by = inp["by"]
    mode = inp["mode"]
    di = W.di
    if mode == "aggregate":
        seen = []
        def probe(d):
            seen.append([x for x in d.rid])
            return d.nrow
        g = data.group_by(*by)
        if inp.get("interleave") == "count":
            data.count("v")           # a non-in-place call on the same object between group_by and aggregate
        elif inp.get("interleave") == "unique":
            data.unique("v")
        out = g.aggregate(k=probe, n=di.count())
        return {"out": out, "seen": seen, "recv": data, "alias": _frame_alias(W, out, data)}
    if mode == "count":
        out = data.count(*by)
        return {"out": out, "recv": data, "alias": _frame_alias(W, out, data)}
    if mode == "count_twice":
        # history: group, edit the key column in place, group again (state kept on column objects must not leak)
        first = data.count(*by)
        col = data[by[0]]
        for i, v in enumerate(inp["new"]):
            col[i] = v
        out = data.count(*by)
        return {"out": out, "first": first}
    if mode == "split":
        return {"out": [list(x) for x in data.split(*by)]}
    if mode == "modify":
        out = data.group_by(*by).modify(size=lambda d: d.nrow, first=lambda d: d.rid[0])
        return {"out": out, "recv": data, "alias": _frame_alias(W, out, data)}
    if mode == "helper":
        out = data.group_by(*by).aggregate(
            a1=di.mean("v"), a2=lambda d: di.mean(d.v),
            b1=di.max("v"), b2=lambda d: di.max(d.v),
            c1=di.first("v"), c2=lambda d: di.first(d.v),
            d1=di.count(), d2=lambda d: di.count(d.v),
            e1=di.nth("v", -2), e2=lambda d: di.nth(d.v, -2),
            f1=di.last("v", drop_na=True), f2=lambda d: di.last(d.v, drop_na=True),
            g1=di.count("v", drop_na=True), g2=lambda d: di.count(d.v, drop_na=True))
        return {"out": out}
    raise ValueError(mode)

# ---------------------------------------------------------------------------- C05 joins

@op
def df_join(inp, W):
    a, b = inp["a"], inp["b"]
    pair = list if inp.get("pair_form") == "list" else tuple
    by = [x if isinstance(x, str) else pair(x) for x in inp["by"]]
    out = getattr(a, inp["kind"])(b, *by)
    return {"out": out, "a": a, "b": b, "alias": _frame_alias(W, out, a, b)}

# ---------------------------------------------------------------------------- C11 Vector sort / rank / unique

@op
def vec_op(inp, W):
    v = inp["v"]
    m = inp["method"]
    if m == "sort":
        out = v.sort(dir=inp["dir"])
    elif m == "rank":
        out = v.rank(method=inp["rank_method"])
    elif m == "unique":
        out = v.unique()
    else:
        raise ValueError(m)
    return {"out": out, "recv": v, "alias": W.shares(out, v)}

# ---------------------------------------------------------------------------- C09 combining / reshaping

@op
def df_reshape(inp, W):
    data = inp["data"]
    m = inp["method"]
    others = inp.get("others", [])
    if m == "rbind":
        out = data.rbind(*others)
    elif m == "cbind":
        out = data.cbind(*others)
    elif m == "update":
        out = data.update(others[0])
    elif m == "modify":
        kw = {}
        for name, how, value in inp["values"]:
            if how == "callable":
                kw[name] = (lambda v: (lambda d: v))(value)
            elif how == "existing":
                kw[name] = (lambda src: (lambda d: d[src]))(value)         # the callable hands back a column of the frame itself
            elif how == "existing_view":
                kw[name] = (lambda src: (lambda d: d[src][:]))(value)
            else:
                kw[name] = value
        out = data.modify(**kw)
    elif m == "select":
        out = data.select(*inp["names"])
    elif m == "unselect":
        out = data.unselect(*inp["names"])
    elif m == "rename":
        out = data.rename(**{to: fm for to, fm in inp["pairs"]})
    elif m == "colnames":
        form = inp.get("names_form", "list")
        data.colnames = tuple(inp["names"]) if form == "tuple" else (x for x in inp["names"]) if form == "iter" else inp["names"]
        return {"out": data, "recv": None, "others": others, "alias": []}
    else:
        raise ValueError(m)
    return {"out": out, "recv": data, "others": others, "alias": _frame_alias(W, out, data, *others)}

# ---------------------------------------------------------------------------- C06 remaining non-in-place methods

@op
def vec_misc(inp, W):
    v = inp["v"]; m = inp["method"]
    others = []
    if m in ("head", "tail"): out = getattr(v, m)(inp["n"])
    elif m == "drop_na": out = v.drop_na()
    elif m == "replace_na": out = v.replace_na(inp["value"])
    elif m == "concat":
        others = [inp["other"]]
        out = v.concat(inp["other"])
    elif m in ("as_float", "as_object", "as_boolean", "as_string", "as_integer", "as_date", "as_datetime"): out = getattr(v, m)()
    elif m == "as_datetime_ns": out = v.as_datetime("ns")
    elif m == "map": out = v.map(lambda x: x)
    elif m == "range": out = v.range()
    elif m == "sample":
        draw = inp["draw"]
        orig = W.np.random.choice
        W.np.random.choice = lambda n, size=None, replace=True: draw
        try:
            out = v.sample(inp["n"])
        finally:
            W.np.random.choice = orig
    elif m == "tolist":
        out = v.tolist()
        return {"out": out, "recv": v, "others": others, "alias": False}
    elif m == "equal":
        others = [inp["other"]]
        out = v.equal(inp["other"])
        return {"out": out, "recv": v, "others": others, "alias": False}
    else:
        raise ValueError(m)
    alias = W.shares(out, v) or any(W.shares(out, o) for o in others)
    return {"out": out, "recv": v, "others": others, "alias": alias}

@op
def df_misc(inp, W):
    data = inp["data"]; m = inp["method"]
    if m == "deepcopy": out = data.deepcopy()
    elif m == "copy": out = data.copy()
    elif m == "to_list_of_dicts":
        out = data.to_list_of_dicts()
        return {"out": out, "recv": data, "alias": []}
    elif m == "map":
        out = data.map(lambda d, i: d.rid[i])
        return {"out": out, "recv": data, "alias": []}
    elif m == "geo_to_data_frame":
        out = data.to_data_frame(drop_geometry=inp["drop_geometry"])
    elif m == "clear":
        out = data.clear()
    else:
        raise ValueError(m)
    return {"out": out, "recv": data, "alias": _frame_alias(W, out, data)}

# ---------------------------------------------------------------------------- C01 well-formedness

C01_POOL = ["a", "b", "a b", "items", "nrow", "filter", "colnames"]

def _observe(W, f):
    di = W.di
    cols = list(dict.items(f))
    rep = {"names": [k for k, _ in cols],
           "classes": [type(v).__name__ for _, v in cols],
           "ndims": [int(getattr(v, "ndim", -1)) for _, v in cols],
           "lens": [int(len(v)) if getattr(v, "ndim", 0) >= 1 else -1 for _, v in cols]}
    rep["readable"] = [len(v.tolist()) if getattr(v, "ndim", 0) == 1 else -1 for _, v in cols]    # the data can actually be read
    empty_attrs = set(dir(di.DataFrame()))
    attr = {}
    for p in C01_POOL:
        has = hasattr(f, p)
        inf = p in f
        same = bool(has and inf and (getattr(f, p) is f[p]))
        attr[p] = [bool(inf), bool(has), same, p in empty_attrs]
    rep["attr"] = attr
    try:
        rep["nrow"] = int(f.nrow)
    except Exception as e:
        rep["nrow"] = type(e).__name__
    return rep

class _StrSub(str):
    """a user-defined subclass of str (no behaviour of its own)"""

def _mkvalue(W, spec):
    kind, n, v = spec
    if kind == "scalar": return v
    if kind == "strsub": return _StrSub(v)
    if kind == "list": return [v] * n
    if kind == "array": return W.np.array([v] * n, dtype=float) if isinstance(v, float) else W.di.Vector([v] * n)
    if kind == "column": return W.di.DataFrameColumn([v] * n, float) if isinstance(v, float) else W.di.DataFrameColumn([v] * n)
    raise ValueError(kind)

@op
def df_history(inp, W):
    di = W.di
    obs = []
    try:
        cols = {name: (val if not isinstance(val, list) or not val or not isinstance(val[0], str) or val[0] not in ("scalar", "strsub", "list", "array", "column") else _mkvalue(W, val))
                for name, val in inp["init"]}
        ctor = inp.get("ctor", "kwargs")
        if ctor == "kwargs": f = di.DataFrame(**cols)
        elif ctor == "dict": f = di.DataFrame(dict(cols))
        elif ctor == "pairs": f = di.DataFrame(list(cols.items()))
        elif ctor == "dict+kwargs":
            first = next(iter(cols)); f = di.DataFrame({first: cols[first]}, **{k: v for k, v in cols.items() if k != first})
        elif ctor == "frame+kwargs":
            # the dict-style form: an existing frame as the positional argument plus keyword columns
            first = next(iter(cols)); base = di.DataFrame(**{first: cols[first]})
            f = di.DataFrame(base, **{k: v for k, v in cols.items() if k != first})
        else: raise RuntimeError("unknown constructor form " + ctor)
    except RuntimeError:
        raise
    except Exception as e:
        return {"init": type(e).__name__, "obs": []}
    obs.append(["init", "ok", _observe(W, f)])
    for st in inp["steps"]:
        o = st["op"]
        try:
            if o == "setitem": f[st["name"]] = _mkvalue(W, st["value"])
            elif o == "setattr": setattr(f, st["name"], _mkvalue(W, st["value"]))
            elif o == "delitem": del f[st["name"]]
            elif o == "delattr": delattr(f, st["name"])
            elif o == "pop": f.pop(st["name"])
            elif o == "popitem": f.popitem()
            elif o == "colnames": f.colnames = st["names"]
            elif o == "filter": f = f.filter(st["mask"])
            elif o == "sort": f = f.sort(**{st["name"]: st["dir"]})
            elif o == "unique": f = f.unique(*st["names"])
            elif o == "select": f = f.select(*st["names"])
            elif o == "unselect": f = f.unselect(*st["names"])
            elif o == "rename": f = f.rename(**{st["to"]: st["name"]})
            elif o == "head": f = f.head(st["n"])
            elif o == "slice": f = f.slice(rows=st["rows"])
            elif o == "modify": f = f.modify(**{st["name"]: _mkvalue(W, st["value"])})
            elif o == "cbind": f = f.cbind(di.DataFrame(**{st["name"]: _mkvalue(W, st["value"])}))
            elif o == "rbind": f = f.rbind(f)
            elif o == "copy": f = f.copy()
            elif o == "deepcopy": f = f.deepcopy()
            elif o == "drop_na": f = f.drop_na(*st["names"])
            elif o == "left_join": f = f.left_join(f.rename(zz=st["other"]), st["name"]) if st["other"] != st["name"] else f.left_join(f, st["name"])
            elif o == "count": f = f.count(st["name"])
            elif o == "to_lod_back": f = f.to_list_of_dicts().to_data_frame()
            else: raise RuntimeError("unknown step " + o)
            status = "ok"
        except Exception as e:
            if isinstance(e, RuntimeError): raise
            status = type(e).__name__
        obs.append([o, status, _observe(W, f)])
    return {"init": "ok", "obs": obs}

# ---------------------------------------------------------------------------- C15 ListOfDicts transformations

def _lod_ids(lod):
    return [item.get("id") for item in lod]

def _lod_call(inp, W, data):
    m = inp["method"]
    di = W.di
    if m in ("filter", "filter_out"):
        if inp["cond"] == "function":
            table = inp["pred"]
            out = getattr(data, m)(lambda item: table[item["id"]])
        else:
            out = getattr(data, m)(**{k: v for k, v in inp["pairs"]})
    elif m == "sort":
        out = data.sort(**{k: d for k, d in inp["by"]})
    elif m == "unique":
        out = data.unique(*inp["keys"])
    elif m in ("select", "unselect"):
        out = getattr(data, m)(*inp["keys"])
    elif m == "rename":
        out = data.rename(**{to: fm for to, fm in inp["pairs"]})
    elif m == "modify":
        table = inp["values"]
        out = data.modify(**{inp["key"]: (lambda item: table[item["id"]])})
    elif m == "modify_if":
        table = inp["values"]; ptable = inp["pred"]
        out = data.modify_if(lambda item: ptable[item["id"]], **{inp["key"]: (lambda item: table[item["id"]])})
    elif m == "fill_missing_keys":
        out = data.fill_missing_keys(**{k: v for k, v in inp["pairs"]})
    elif m == "append":
        out = data.append(inp["item"])
    elif m == "extend":
        out = data.extend((x for x in inp["other"]) if inp.get("other_form") == "iter" else inp["other"])
    elif m == "insert":
        out = data.insert(inp["index"], inp["item"])
    elif m == "add":
        out = data + inp["other"]
    elif m == "mul":
        out = data * inp["n"]
    elif m == "rmul":
        out = inp["n"] * data
    elif m == "reverse":
        out = data.reverse()
    elif m in ("head", "tail"):
        out = getattr(data, m)(inp["n"])
    elif m == "sample":
        lm = __import__("dataiter.list_of_dicts", fromlist=["x"])
        draw = list(inp["draw"])
        class _Random:
            @staticmethod
            def sample(population, k):
                if k != len(draw) or any(not 0 <= i < len(population) for i in draw):
                    raise RuntimeError(f"random.sample stub: asked for {k} of {len(population)}, harness drew {draw}")
                return list(draw)
        old = lm.random
        lm.random = _Random
        try:
            out = data.sample(inp["n"]) if inp["n"] is not None else data.sample()
        finally:
            lm.random = old
    elif m == "getitem":
        a, b, c = inp["slice"]
        out = data[a:b:c]
    elif m == "drop_na":
        out = data.drop_na(*inp["keys"])
    elif m == "copy":
        out = data.copy()
    elif m == "deepcopy":
        out = data.deepcopy()
    else:
        raise ValueError(m)
    return out

@op
def lod_op(inp, W):
    from .tree import Raised
    data = inp["data"]
    if inp.get("pre") == "group_by":
        data.group_by("k")            # marks the object itself (the returned list is not used)
    before = [dict(x) for x in data]
    try:
        out = _lod_call(inp, W, data)
    except Exception as e:
        out = Raised(type(e).__name__, str(e)[:200])
    return {"out": out, "before": before, "recv_items": [dict(x) for x in data]}


# ---------------------------------------------------------------------------- C16 ListOfDicts joins / aggregate

@op
def lod_join(inp, W):
    a, b = inp["a"], inp["b"]
    b_before = [dict(x) for x in b]
    pair = list if inp.get("pair_form") == "list" else tuple
    by = [x if isinstance(x, str) else pair(x) for x in inp["by"]]
    out = getattr(a, inp["kind"])(b, *by)
    return {"out": out, "b_after": [dict(x) for x in b], "b_before": b_before,
            "b_obsolete": bool(list.__getattribute__(b, "_obsolete"))}

@op
def lod_aggregate(inp, W):
    data = inp["data"]
    g = data.group_by(*inp["by"])
    if inp.get("derive"):
        g.aggregate(n=len)                                   # a first aggregate on the grouped list
        g = g[1:] if inp["derive"] == "slice" else g.reverse()    # a list derived from it keeps the grouping
    out = g.aggregate(n=len, ids=lambda g: [x["id"] for x in g])
    return {"out": out}

# ---------------------------------------------------------------------------- C17 shared-dict discipline

WARNING_TEXT = "Warning: A successor has modified the shared dicts"

@op
def lod_deepcopy(inp, W):
    data = inp["data"]
    nested = inp.get("nested")
    if nested:
        # item values that are containers: a mutable object inside a tuple, a list, a dict inside a dict
        for item in data:
            i = item["id"]
            if nested == "tuple": item["t"] = ({"y": i},)
            elif nested == "list": item["t"] = [[i]]
            else: item["t"] = {"d": {"y": i}}
    before = [dict(x) for x in data]
    table = inp["values"]
    copy = data.deepcopy() if inp.get("how", "method") == "method" else __import__("copy").deepcopy(data)
    if nested:
        import copy as _c
        snapshot = [_c.deepcopy(item["t"]) for item in (data if inp["edit"] == "copy" else copy)]
        for item in (copy if inp["edit"] == "copy" else data):
            t = item["t"]
            if nested == "tuple": t[0]["y"] = -1
            elif nested == "list": t[0].append(-1)
            else: t["d"]["y"] = -1
        res_nested = [item["t"] for item in (data if inp["edit"] == "copy" else copy)] == snapshot
        for item in list(data) + list(copy):
            item.pop("t", None)
        for b in before: b.pop("t", None)
    if inp["edit"] == "copy":
        edited = copy.modify(k=lambda item: table[item["id"]])
        untouched = data
    else:
        edited = data.modify(k=lambda item: table[item["id"]])
        untouched = copy
    res = {"before": before, "untouched": [dict(x) for x in untouched], "edited": [dict(x) for x in edited],
           "copy_obsolete": bool(list.__getattribute__(copy, "_obsolete")), "data_obsolete": bool(list.__getattribute__(data, "_obsolete"))}
    if nested: res["nested_untouched"] = bool(res_nested)
    return res

SHARING = ["copy", "filter", "sort", "head", "tail", "slice", "reverse", "unique", "add", "extend", "append", "semi_join",
           "anti_join", "drop_na", "filter_out", "mul"]
EDITING = ["modify", "modify_if", "rename", "select", "unselect", "fill_missing_keys", "inner_join", "left_join"]

@op
def lod_history(inp, W):
    import io, contextlib
    di = W.di
    nodes = [inp["data"]]
    warnings = [0]
    def use(i, fn):
        if nodes[i] is None: return None
        buf = io.StringIO()
        with contextlib.redirect_stdout(buf):
            r = fn(nodes[i])
        warnings[i] += buf.getvalue().count(WARNING_TEXT)
        return r
    other = di.ListOfDicts([{"id": 100, "k": 5}])
    r = None
    for st in inp["steps"]:
        t = st["target"]; m = st["method"]
        if st is inp["steps"][-1]:
            # what every list holds just before the edit (identity of the values under each key)
            before = [None if x is None else [(list(it.keys()), [it[k] for k in it]) for it in list.__iter__(x)] for x in nodes]
        if st.get("release"):
            # method chains: the program keeps no name for these lists any more (x.filter(...).sort(...).modify(...))
            r = None
            for i in st["release"]: nodes[i] = None
            import gc; gc.collect()
        if m == "copy": r = use(t, lambda x: x.copy())
        elif m == "deepcopy": r = use(t, lambda x: x.deepcopy())
        elif m == "ctor": r = use(t, lambda x: di.ListOfDicts(x))                 # a new list from the items: the constructor makes new dicts
        elif m == "ctor_gen": r = use(t, lambda x: di.ListOfDicts(item for item in x))
        elif m == "map_identity": r = use(t, lambda x: x.map(lambda item: item))
        elif m == "filter": r = use(t, lambda x: x.filter(lambda item: True))
        elif m == "filter_out": r = use(t, lambda x: x.filter_out(lambda item: False))
        elif m == "sort": r = use(t, lambda x: x.sort(id=1))
        elif m == "head": r = use(t, lambda x: x.head(5))
        elif m == "tail": r = use(t, lambda x: x.tail(5))
        elif m == "slice": r = use(t, lambda x: x[0:5])
        elif m == "reverse": r = use(t, lambda x: x.reverse())
        elif m == "unique": r = use(t, lambda x: x.unique("id"))
        elif m == "drop_na": r = use(t, lambda x: x.drop_na("id"))
        elif m == "mul": r = use(t, lambda x: x * 1)
        elif m == "append": r = use(t, lambda x: x.append({"id": 200 + len(nodes), "k": 1}))
        elif m == "semi_join": r = use(t, lambda x: x.semi_join(x.deepcopy(), "id"))
        elif m == "anti_join": r = use(t, lambda x: x.anti_join(other, "id"))
        elif m in ("add", "extend"):
            o = st["other"]
            r = use(t, (lambda x: x + nodes[o]) if m == "add" else (lambda x: x.extend(nodes[o])))
        elif m == "modify": r = use(t, lambda x: x.modify(z=lambda item: 1))
        elif m == "modify_if": r = use(t, lambda x: x.modify_if(lambda item: True, z=lambda item: 1))
        elif m == "rename": r = use(t, lambda x: x.rename(kk="k"))
        elif m == "select": r = use(t, lambda x: x.select("id", "k"))
        elif m == "unselect": r = use(t, lambda x: x.unselect("zz"))
        elif m == "fill_missing_keys": r = use(t, lambda x: x.fill_missing_keys(w=0))
        elif m == "inner_join": r = use(t, lambda x: x.inner_join(other, "id"))
        elif m == "left_join": r = use(t, lambda x: x.left_join(other, "id"))
        else: raise RuntimeError(m)
        nodes.append(r); warnings.append(0)
    flags = [None if x is None else bool(list.__getattribute__(x, "_obsolete")) for x in nodes]
    unchanged = []
    for x, b in zip(nodes, before):
        if x is None or b is None: unchanged.append(None); continue
        now = [(list(it.keys()), [it[k] for k in it]) for it in list.__iter__(x)]
        unchanged.append(len(now) == len(b) and all(k1 == k0 and len(v1) == len(v0) and all(p is q for p, q in zip(v1, v0)) for (k1, v1), (k0, v0) in zip(now, b)))
    first = []; second = []
    import copy as _copy
    how = inp.get("first_use", "named")
    uses = {"named": lambda x: x.pluck, "slice": lambda x: x[0:1], "add": lambda x: x + other, "mul": lambda x: x * 1,
            "rmul": lambda x: 1 * x, "copy": lambda x: _copy.copy(x), "len_then_named": lambda x: (len(x), x.keys)}
    for i in range(len(nodes)):
        w0 = warnings[i]; use(i, uses[how]); first.append(warnings[i] - w0)
    for i in range(len(nodes)):
        w0 = warnings[i]; use(i, lambda x: x.pluck); second.append(warnings[i] - w0)
    res = {"flags": flags, "warnings_total": list(warnings), "second_use": second, "first_use": first, "unchanged": unchanged}
    if inp.get("late"):
        # a list derived after the edit (possibly from a list that is obsolete by now), then an edit through it
        t = inp["late"]["target"]; m = inp["late"]["method"]
        buf = io.StringIO()
        with contextlib.redirect_stdout(buf):
            x = nodes[t]
            late = x.copy() if m == "copy" else x[0:5] if m == "slice" else x.filter(lambda item: True) if m == "filter" else x.sort(id=1)
        res["late_born_obsolete"] = bool(list.__getattribute__(late, "_obsolete"))
        buf = io.StringIO()
        with contextlib.redirect_stdout(buf):
            late.pluck
        res["late_warns_when_fresh"] = buf.getvalue().count(WARNING_TEXT)
        buf = io.StringIO()
        with contextlib.redirect_stdout(buf):
            child = late.modify(z2=lambda item: 2)
        res["late_obsolete_after_edit"] = bool(list.__getattribute__(late, "_obsolete"))
        res["late_child_obsolete"] = bool(list.__getattribute__(child, "_obsolete"))
        buf = io.StringIO()
        with contextlib.redirect_stdout(buf):
            late.pluck; late.pluck
        res["late_warns_after_edit"] = buf.getvalue().count(WARNING_TEXT)
    return res

# ---------------------------------------------------------------------------- C07 aggregation helpers

@op
def np_reduce(inp, W):
    """oracle call: the real NumPy reducer on concrete values (stands in for the uninterpreted function)"""
    np = W.np
    x = np.array(inp["values"], dtype=float)
    name = inp["name"]
    import warnings
    with warnings.catch_warnings():
        warnings.simplefilter("ignore")
        if name == "mean": r = np.mean(x)
        elif name == "median": r = np.median(x)
        elif name == "std": r = np.std(x, ddof=inp.get("ddof", 0))
        elif name == "var": r = np.var(x, ddof=inp.get("ddof", 0))
        elif name == "quantile": r = np.quantile(x, inp["q"])
        else: raise ValueError(name)
    return float(r)

def _helper_kwargs(inp):
    kw = {}
    for k in ("drop_na", "ddof"):
        if inp.get(k) is not None: kw[k] = inp[k]
    return kw

@op
def agg_helper(inp, W):
    di = W.di
    name = inp["helper"]
    f = getattr(di, name)
    kw = _helper_kwargs(inp)
    pos = []
    if name == "nth": pos = [inp["index"]]
    if name == "quantile": pos = [inp["q"]]
    if inp["form"] == "vector":
        return {"out": f(inp["x"], *pos, **kw)}
    data = di.DataFrame(g=inp["g"], x=inp["x"])
    if inp.get("then"):
        t = inp["then"]
        tpos = [t["index"]] if t["helper"] == "nth" else []
        out = data.group_by("g").aggregate(y=f("x", *pos, **kw), y2=getattr(di, t["helper"])("x", *tpos, **_helper_kwargs(t)))
        return {"out": out}
    out = data.group_by("g").aggregate(y=f("x", *pos, **kw))
    return {"out": out}

# ---------------------------------------------------------------------------- C08 Numba on/off

def aggregate_once(inp, di):
    name = inp["helper"]
    f = getattr(di, name)
    kw = _helper_kwargs(inp)
    pos = []
    if name == "nth": pos = [inp["index"]]
    if name == "quantile": pos = [inp["q"]]
    data = di.DataFrame(g=inp["g"], x=inp["x"])
    if inp.get("then"):
        # a second helper on the same column in the same aggregate() call
        t = inp["then"]
        tpos = [t["index"]] if t["helper"] == "nth" else []
        return data.group_by("g").aggregate(y=f("x", *pos, **kw), y2=getattr(di, t["helper"])("x", *tpos, **_helper_kwargs(t)))
    return data.group_by("g").aggregate(y=f("x", *pos, **kw))

class Passthrough:
    """already encoded JSON (the real codec returns it verbatim)"""
    def __init__(self, j): self.j = j

@op
def agg_numba(inp, W):
    """inp["steps"]: list of aggregation jobs run in order, first with USE_NUMBA on, then off"""
    if W.sym:
        from . import numba_model
        return numba_model.run(inp, W)
    import json, os, shutil, subprocess, sys, tempfile
    from . import realcodec_lazy
    shared = os.environ.get("VF_NUMBA_SHARED_CACHE") if not inp.get("fresh_cache") else None
    cache = shared or tempfile.mkdtemp(prefix="vf_numba_cache_")
    try:
        env = dict(os.environ)
        env["NUMBA_CACHE_DIR"] = cache
        env.pop("DATAITER_USE_NUMBA", None)
        job = {"steps": [realcodec_lazy.encode(st) for st in inp["steps"]]}
        p = subprocess.run([sys.executable, "-m", "vf.numba_job"], input=json.dumps(job), capture_output=True, text=True,
                           cwd=os.path.dirname(os.path.dirname(os.path.abspath(__file__))), env=env, timeout=600)
        if p.returncode != 0:
            raise RuntimeError("numba job failed: " + p.stderr[-800:])
        r = json.loads(p.stdout.strip().splitlines()[-1])
        if "error" in r: raise RuntimeError(r["error"])
        return Passthrough({"d": [["on", {"l": r["on"]}], ["off", {"l": r["off"]}]]})
    finally:
        if not shared:
            shutil.rmtree(cache, ignore_errors=True)

# ---------------------------------------------------------------------------- C10 Vector construction / NA model

@op
def vec_build(inp, W):
    di = W.di
    seq = inp["seq"]
    dt = inp.get("dtype")
    if dt == "str": dt = str
    elif dt == "float": dt = float
    elif dt == "int": dt = int
    elif dt == "object": dt = object
    elif dt == "bool": dt = bool
    if inp.get("source") == "objarray":
        # the same Python values held by an object ndarray (what np.where(..., None, x), pandas and Arrow hand over)
        arr = W.np.full(len(seq), None, object)
        for i, x in enumerate(seq): arr[i] = x
        seq = arr
    elif inp.get("source") == "iter":
        seq = (x for x in list(seq))          # a one-shot iterator over the same values
    elif inp.get("source") == "tuple":
        seq = tuple(seq)
    v = di.Vector(seq, dt) if dt is not None else di.Vector(seq)
    res = {"v": v, "is_na": v.is_na(), "tolist": v.tolist()}
    back = di.Vector(v.tolist(), v.dtype)
    res["rebuilt"] = back
    res["rebuilt_equal"] = bool(back.equal(v))
    res["self_equal"] = bool(v.equal(v))
    up = v.astype(v.na_dtype)
    res["na_dtype_holds_na"] = None
    if len(up):
        up[0] = v.na_value
        res["na_dtype_holds_na"] = bool(up.is_na()[0])
        # the documented way (Vector.na_dtype docstring): put(), on a vector that has been inspected before
        up2 = v.astype(v.na_dtype)
        before = up2.is_na().tolist()
        up2.put([len(up2) - 1], v.na_value)
        res["put_na_seen"] = bool(up2.is_na()[len(up2) - 1]) and up2.tolist()[len(up2) - 1] is None
        res["put_others_kept"] = [bool(a) == bool(b) for a, b in zip(before[:-1], up2.is_na().tolist()[:-1])]
    res["drop_na"] = v.drop_na()
    if "fill" in inp:
        res["replace_na"] = v.replace_na(inp["fill"])
    return res

@op
def vec_equal(inp, W):
    a, b, c = inp["a"], inp["b"], inp["c"]
    return {"ab": bool(a.equal(b)), "ba": bool(b.equal(a)), "bc": bool(b.equal(c)), "ac": bool(a.equal(c)), "aa": bool(a.equal(a))}

# ---------------------------------------------------------------------------- C14 restricted / aliased reads

@op
def io_alias(inp, W):
    di = W.di
    from dataiter import io as dio
    alias = inp["alias"]
    target = {"read_csv": (di.DataFrame, "read_csv"), "read_geojson": (di.GeoJSON, "read"), "read_json": (di.ListOfDicts, "read_json"),
              "read_npz": (di.DataFrame, "read_npz"), "read_parquet": (di.DataFrame, "read_parquet")}[alias]
    cls, name = target
    rec = {}
    marker = object()
    def recorder(*a, **k):
        rec["args"] = list(a); rec["kwargs"] = dict(k)
        return "RESULT"
    old = cls.__dict__[name]
    setattr(cls, name, staticmethod(recorder))
    try:
        kwargs = {k: v for k, v in inp["kwargs"]}
        out = getattr(dio, alias)(inp["path"], **kwargs)
    finally:
        setattr(cls, name, old)
    return {"returned_target_result": out == "RESULT", "args": rec.get("args"), "kwargs": rec.get("kwargs")}

def _json_text(W, module, value):
    """world split: real -> real JSON text; symbolic -> token + json stub installed by the caller"""
    import json
    return json.dumps(value)

def _shift(v):
    """a user-supplied 'type' (any callable is accepted by the readers): distinguishable and value-preserving"""
    return v + "!" if isinstance(v, str) else v + 1000

_RESTRICT_TYPES = {"float": float, "shift": _shift, "str": str}

@op
def read_restrict(inp, W):
    """reader with a column/key restriction vs. read-everything-then-select"""
    import contextlib, json, os, tempfile
    di = W.di
    kind = inp["reader"]
    records = inp["records"]          # list of dicts (JSON) or list of rows (CSV)
    cols = inp["cols"]
    from . import stubs
    tmap = {k: _RESTRICT_TYPES[t] for k, t in inp.get("types") or []}
    tkw = {} if not tmap else {("dtypes" if kind.startswith("DataFrame") else "types"): tmap}
    if kind in ("DataFrame.from_json", "ListOfDicts.from_json"):
        cls = di.DataFrame if kind.startswith("DataFrame") else di.ListOfDicts
        mod = __import__("dataiter.data_frame" if cls is di.DataFrame else "dataiter.list_of_dicts", fromlist=["x"])
        kw = "columns" if cls is di.DataFrame else "keys"
        if W.sym:
            with stubs.patched(mod, "json", stubs.JsonStub(mod.json, records)):
                full = cls.from_json("<text>")
                part = cls.from_json("<text>", **{kw: cols}, **tkw)
        else:
            text = json.dumps(records)
            full = cls.from_json(text)
            part = cls.from_json(text, **{kw: cols}, **tkw)
        return {"full": full, "part": part}
    if kind == "ListOfDicts.read_csv":
        header = inp["header"]
        rows = inp["rows"]
        if W.sym:
            mod = __import__("dataiter.list_of_dicts", fromlist=["x"])
            class CsvStub:
                DictWriter = mod.csv.DictWriter; QUOTE_MINIMAL = mod.csv.QUOTE_MINIMAL
                @staticmethod
                def reader(f, dialect=None, delimiter=","):
                    return iter([list(r) for r in rows])
            with stubs.patched(mod, "csv", CsvStub), stubs.patched(mod.util, "xopen", lambda *a, **k: stubs.StubFile()):
                full = di.ListOfDicts.read_csv("x.csv", header=header)
                part = di.ListOfDicts.read_csv("x.csv", header=header, keys=cols, **tkw)
        else:
            d = tempfile.mkdtemp(prefix="vf_csv_")
            try:
                p = os.path.join(d, "x.csv")
                import csv
                with open(p, "w", newline="") as f:
                    csv.writer(f, dialect="unix", quoting=csv.QUOTE_MINIMAL).writerows(rows)
                full = di.ListOfDicts.read_csv(p, header=header)
                part = di.ListOfDicts.read_csv(p, header=header, keys=cols, **tkw)
            finally:
                import shutil; shutil.rmtree(d, ignore_errors=True)
        return {"full": full, "part": part}
    raise ValueError(kind)

# ---------------------------------------------------------------------------- C18 GeoJSON

def _geo_module(W):
    return __import__("dataiter.geojson", fromlist=["x"])

@op
def geo_read(inp, W):
    import json, os, shutil, tempfile
    di = W.di
    coll = inp["collection"]
    kw = {}
    if inp.get("columns") is not None: kw["columns"] = inp["columns"]
    if inp.get("dtypes"): kw["dtypes"] = {k: {"float": float, "str": str, "int": int}[t] for k, t in inp["dtypes"]}
    if W.sym:
        from . import stubs
        mod = _geo_module(W)
        with stubs.patched(mod, "json", stubs.JsonStub(mod.json, coll)), stubs.patched(mod.util, "xopen", lambda *a, **k: stubs.StubFile()):
            out = di.GeoJSON.read("x.geojson", **kw)
    else:
        d = tempfile.mkdtemp(prefix="vf_geo_")
        try:
            p = os.path.join(d, "x.geojson")
            with open(p, "w", encoding="utf-8") as f: json.dump(coll, f, ensure_ascii=False)
            out = di.GeoJSON.read(p, **kw)
        finally:
            shutil.rmtree(d, ignore_errors=True)
    return {"out": out}

@op
def geo_write(inp, W):
    """writes the GeoJSON object; returns what a JSON parser makes of the written text"""
    import json, os, shutil, tempfile
    di = W.di
    data = inp["data"]
    for k, v in inp["metadata"]:
        data.metadata[k] = v
    kw = {}
    if inp.get("indent") is not None: kw["indent"] = inp["indent"]
    if W.sym:
        from . import stubs, symx
        mod = _geo_module(W)
        js = stubs.JsonStub(mod.json, None)
        f = stubs.StubFile(mode="w")
        raw = []
        def hook(s, spec):
            raw.append(s)
            return f"{len(raw) - 1}"
        symx.FORMAT_HOOK[0] = hook
        try:
            with stubs.patched(mod, "json", js), stubs.patched(mod.util, "xopen", lambda *a, **k: f), \
                 stubs.patched(mod.util, "makedirs_for_file", lambda p: None):
                data.write("x.geojson", **kw)
        finally:
            symx.FORMAT_HOOK[0] = None
        text = "".join(f.chunks)
        # template -> JSON: blobs are valid JSON by the json.dumps contract (placeholder strings, substituted back
        # after parsing); raw-inserted symbolic names are replaced by a harmless literal and reported separately
        import re
        for i in range(len(js.dumped)):
            text = text.replace(f"<json#{i}>", json.dumps(f"__blob_{i}__"))
        text = re.sub("(\\d+)", lambda m: f"__raw_{m.group(1)}__", text)
        try:
            parsed = json.loads(text)
        except ValueError as e:
            return {"parsed": None, "error": str(e), "raw_names": raw}
        def back(v):
            if type(v) is str:
                m = re.fullmatch("__blob_(\\d+)__", v)
                if m: return js.dumped[int(m.group(1))][0]
                return v
            if isinstance(v, list): return [back(x) for x in v]
            if isinstance(v, dict): return {back(k): back(x) for k, x in v.items()}
            return v
        def keyback(v):
            if isinstance(v, dict):
                out = {}
                for k, x in v.items():
                    m = re.fullmatch("__raw_(\\d+)__", k) if type(k) is str else None
                    out[raw[int(m.group(1))] if m else k] = keyback(x)
                return out
            if isinstance(v, list): return [keyback(x) for x in v]
            return v
        return {"parsed": _plain(keyback(back(parsed))), "error": None, "raw_names": raw}
    d = tempfile.mkdtemp(prefix="vf_geo_")
    try:
        p = os.path.join(d, "x.geojson")
        data.write(p, **kw)
        text = open(p, encoding="utf-8").read()
        try:
            return {"parsed": json.loads(text), "error": None, "raw_names": []}
        except ValueError as e:
            return {"parsed": None, "error": str(e), "raw_names": []}
    finally:
        shutil.rmtree(d, ignore_errors=True)

def _plain(v):
    """AttributeDict / ListOfDicts -> plain dict / list"""
    if isinstance(v, dict): return {k: _plain(x) for k, x in v.items()}
    if isinstance(v, (list, tuple)): return [_plain(x) for x in v]
    return v

# ---------------------------------------------------------------------------- C13 conversions

def _back_dtypes(inp, data):
    """dtypes= for the way back: the original dtype of every string / float column (the natural way to ask for the same frame)"""
    if not inp.get("back_dtypes"): return {}
    m = {}
    for name in data.colnames:
        col = data[name]
        if col.is_string(): m[name] = str
        elif col.is_float(): m[name] = float
    return {"dtypes": m}

@op
def df_convert(inp, W):
    """data frame -> ListOfDicts / JSON text -> data frame"""
    di = W.di
    data = inp["data"]
    leg = inp["leg"]
    if leg == "lod":
        mid = data.to_list_of_dicts()
        back = mid.to_data_frame()
        return {"mid": mid, "back": back, "recv": data}
    if leg == "json":
        if W.sym:
            from . import stubs
            m1 = __import__("dataiter.list_of_dicts", fromlist=["x"]); m2 = __import__("dataiter.data_frame", fromlist=["x"])
            js = stubs.JsonStub(m1.json, None)
            with stubs.patched(m1, "json", js):
                text = data.to_json()
            value, dkw = js.dumped[-1]
            default = dkw.get("default")
            def leaf(v):
                # what the encoder does with a value that is not JSON-native: hands it to `default`
                if v is None or isinstance(v, (bool, int, float, str)) or type(v).__name__ in ("SymPyInt", "SymPyFloat", "SymPyBool", "SymStr"):
                    return v
                if default is None: raise TypeError(f"Object of type {type(v).__name__} is not JSON serializable")
                return default(v)
            records = [{k: leaf(v) for k, v in dict(x).items()} for x in value]
            with stubs.patched(m2, "json", stubs.JsonStub(m2.json, records)):
                back = di.DataFrame.from_json(text, **_back_dtypes(inp, data))
            return {"mid": records, "back": back, "recv": data}
        import json
        text = data.to_json()
        return {"mid": json.loads(text), "back": di.DataFrame.from_json(text, **_back_dtypes(inp, data)), "recv": data}
    raise ValueError(leg)

class _FakeSeries:
    """contract stub of a foreign column (pandas Series / Arrow ChunkedArray): to_numpy() returns an array of the column's
    values, isna()/is_null() is true exactly at None / NaN / NaT cells"""
    def __init__(self, W, arr, mask): self.W = W; self.arr = arr; self.mask = mask
    def to_numpy(self, copy=True): return self.arr.copy()
    def isna(self): return _FakeSeries(self.W, self.mask, None)
    def is_null(self, nan_is_null=False): return _FakeSeries(self.W, self.mask, None)

class _FakePandas:
    def __init__(self, cols): self._cols = cols; self.columns = list(cols)
    def __getitem__(self, k): return self._cols[k]

class _FakeArrow:
    def __init__(self, cols): self.column_names = list(cols); self.columns = list(cols.values())

@op
def df_import(inp, W):
    """from_pandas / from_arrow driven by foreign columns"""
    di = W.di
    cols = inp["cols"]        # [[name, array, null mask array]]
    kind = inp["kind"]
    if W.sym:
        fake = {name: _FakeSeries(W, arr, mask) for name, arr, mask in cols}
        out = di.DataFrame.from_pandas(_FakePandas(fake)) if kind == "pandas" else di.DataFrame.from_arrow(_FakeArrow(fake))
        return {"out": out}
    if kind == "pandas":
        import pandas as pd
        df = pd.DataFrame({name: pd.Series(arr) for name, arr, mask in cols})
        return {"out": di.DataFrame.from_pandas(df)}
    import pyarrow as pa
    arrays = []
    for name, arr, mask in cols:
        if arr.dtype == object: arrays.append(pa.array(arr.tolist()))
        else: arrays.append(pa.array(arr))
    return {"out": di.DataFrame.from_arrow(pa.table(arrays, names=[c[0] for c in cols]))}

@op
def df_export(inp, W):
    """what DataFrame.to_pandas / to_arrow hand over to the foreign library (pandas.DataFrame / pyarrow.array + table are
    replaced by recorders in BOTH worlds: the libraries themselves are C code; their side is observed in df_foreign_roundtrip)"""
    import sys, types
    data = inp["data"]
    got = {}
    if inp["kind"] == "pandas":
        pd = types.ModuleType("pandas")
        def DataFrame(arg=None, *a, **k):
            got["names"] = list(arg.keys()); got["cols"] = [list(v) if isinstance(v, list) else ["<not a list>", type(v).__name__] for v in arg.values()]
            got["extra_args"] = len(a) + len(k)
            return "the-frame"
        pd.DataFrame = DataFrame
        mods = {"pandas": pd}
    else:
        class _Lenient(types.ModuleType):
            def __getattr__(self, name):          # pa.float64(), pa.string(), ...: opaque type tokens
                if name.startswith("__"): raise AttributeError(name)
                return lambda *a, **k: f"<pyarrow.{name}>"
        pa = _Lenient("pyarrow")
        pa.array = lambda values, *a, **k: ("array", list(values) if isinstance(values, list) else ["<not a list>", type(values).__name__], len(a) + len(k))
        def table(arrays, names=None, *a, **k):
            got["names"] = list(names) if names is not None else None
            got["cols"] = [x[1] if isinstance(x, tuple) and x and x[0] == "array" else ["<not a pyarrow array>"] for x in arrays]
            got["extra_args"] = len(a) + len(k) + sum(x[2] for x in arrays if isinstance(x, tuple) and len(x) == 3)
            return "the-table"
        pa.table = table
        mods = {"pyarrow": pa}
    old = {k: sys.modules.get(k) for k in mods}
    sys.modules.update(mods)
    try:
        ret = data.to_pandas() if inp["kind"] == "pandas" else data.to_arrow()
    finally:
        for k, v in old.items():
            if v is None: sys.modules.pop(k, None)
            else: sys.modules[k] = v
    return {"returned_library_object": ret in ("the-frame", "the-table"), "names": got.get("names"), "cols": got.get("cols"),
            "extra_args": got.get("extra_args"), "recv": data}

@op
def df_foreign_roundtrip(inp, W):
    """observed on the real build only: to_pandas/to_arrow and back (pandas / pyarrow themselves are C code)"""
    di = W.di
    data = inp["data"]
    if W.sym:
        return {"back": data.deepcopy(), "observed_only": True}
    back = di.DataFrame.from_pandas(data.to_pandas()) if inp["kind"] == "pandas" else di.DataFrame.from_arrow(data.to_arrow())
    return {"back": back, "observed_only": True}

# ---------------------------------------------------------------------------- C19 dt / regex

class ReResult:
    """symbolic-world result of an re function: remembers the function and its arguments"""
    def __init__(self, name, args): self.name = name; self.args = args
    def __hash__(self): return 0

class ReToken(str):
    def __new__(cls, name, args):
        s = str.__new__(cls, f"<re.{name}>"); s.name = name; s.args = args
        return s

def _re_stub():
    """re as an uninterpreted library: every matching function returns a token that remembers the function, the pattern,
    the flags and the other arguments, however it was reached (module function or compiled pattern)"""
    class Stub:
        IGNORECASE = I = 2; MULTILINE = M = 8; DOTALL = S = 16
    def make(name, pattern, a, flags, k, text_result):
        kw = dict(k); kw["flags"] = flags
        args = ((pattern,) + tuple(a), tuple(sorted(kw.items())))
        return ReToken(name, args) if text_result else ReResult(name, args)
    def mk(name, text_result=False):
        def f(pattern, *a, flags=0, **k):
            return make(name, pattern, a, flags, k, text_result)
        return staticmethod(f)
    names = ("findall", "fullmatch", "match", "search", "split", "subn")
    for n in names:
        setattr(Stub, n, mk(n))
    Stub.sub = mk("sub", True)
    class Compiled:
        def __init__(self, pattern, flags=0): self.pattern = pattern; self.flags = flags
    def cm(name, text_result=False):
        def f(self, *a, **k):
            return make(name, self.pattern, a, self.flags, k, text_result)
        return f
    for n in names: setattr(Compiled, n, cm(n))
    Compiled.sub = cm("sub", True)
    Stub.compile = staticmethod(lambda pattern, flags=0: Compiled(pattern, flags))
    import re as _real_re
    Stub.escape = staticmethod(_real_re.escape)          # a pure function of the (concrete) pattern text
    Stub.Pattern = Compiled
    return Stub

@op
def dt_op(inp, W):
    di = W.di
    from dataiter import dt as dtm
    x = inp["x"]
    fn = inp["fn"]
    args = list(inp.get("args", []))
    kwargs = {k: v for k, v in inp.get("kwargs", [])}
    import contextlib
    ctxs = []
    if W.sym:
        from . import stubs, symdt
        class DT:
            class datetime:
                strptime = staticmethod(symdt.strptime)
        ctxs.append(stubs.patched(dtm, "datetime", DT))
    with contextlib.ExitStack() as st:
        for c in ctxs: st.enter_context(c)
        if inp.get("scalar"):
            x0 = x[0]
            out = getattr(dtm, fn)(x0, *args, **kwargs)
            return {"out": out}
        if inp.get("proxy") == "derived":
            # the proxy was used on the vector before; then the proxy of a vector derived from it (reversed view) is used
            getattr(x.dt, fn)(*args, **kwargs)
            y = x[::-1]
            out = getattr(y.dt, fn)(*args, **kwargs)
        elif inp.get("proxy") == "after_edit":
            # the proxy is used, the vector is then overwritten in place, and the proxy is used again
            v = inp["before"]
            getattr(v.dt, fn)(*args, **kwargs)
            for i in range(len(x)): v[i] = x[i]
            out = getattr(v.dt, fn)(*args, **kwargs)
        elif inp.get("proxy"):
            out = getattr(x.dt, fn)(*args, **kwargs)
        else:
            out = getattr(dtm, fn)(x, *args, **kwargs)
        if fn == "to_string" and inp.get("roundtrip"):
            back = dtm.from_string(out, args[0])
            return {"out": out, "back": back}
    return {"out": out}

@op
def regex_op(inp, W):
    di = W.di
    from dataiter import regex as rx
    x = inp["x"]; fn = inp["fn"]
    pos = list(inp["args"])
    import contextlib
    with contextlib.ExitStack() as st:
        if W.sym:
            from . import stubs
            st.enter_context(stubs.patched(rx, "re", _re_stub()))
        kw = {"flags": inp["flags"]} if inp.get("flags") else {}
        if inp.get("scalar"):
            return {"out": getattr(rx, fn)(*pos, inp["scalar_value"], **kw)}
        if inp.get("proxy") == "after_edit":
            # the proxy is used, the vector is then overwritten in place, and the proxy is used again
            v = inp["before"]
            getattr(v.re, fn)(*pos, **kw)
            for i in range(len(x)): v[i] = x[i]
            out = getattr(v.re, fn)(*pos, **kw)
        elif inp.get("proxy"):
            out = getattr(x.re, fn)(*pos, **kw)
        else:
            out = getattr(rx, fn)(*pos, x, **kw)
    return {"out": out}

# ---------------------------------------------------------------------------- C20 rendering

@op
def render_op(inp, W):
    import contextlib
    di = W.di
    obj = inp["obj"]
    kind = inp["kind"]
    kw = {k: v for k, v in inp.get("kwargs", [])}
    how = inp.get("how", "to_string")
    with contextlib.ExitStack() as st:
        for name, value in inp.get("settings") or []:
            # module-level PRINT_* settings (put back afterwards)
            old = getattr(di, name)
            setattr(di, name, value)
            st.callback(lambda n=name, o=old: setattr(di, n, o))
        if W.sym:
            from . import render, stubs, symx, symnp
            util = __import__("dataiter.util", fromlist=["x"])
            st.enter_context(render.RenderContext(util))
            tw = inp.get("terminal_width")
            if tw is not None:
                st.enter_context(stubs.patched(util, "get_print_width", lambda: render.SymWidth(tw.e) - 1))
                vec = __import__("dataiter.vector", fromlist=["x"])
            class MathStub:
                @staticmethod
                def isinf(x):
                    return symnp.isinf(x) if isinstance(x, symx.SymF64) else __import__("math").isinf(x)
            st.enter_context(stubs.patched(util, "math", MathStub))
            def positional(value, **k):
                # contract: a non-empty digit string "<int digits>.<fraction digits>" (lengths arbitrary within 1..3 / 0..3)
                a = symx.choice("int_digits", [1, 3]); b = symx.choice("frac_digits", [0, 2])
                return "1" * a + "." + "1" * b
            st.enter_context(stubs.patched(symnp, "format_float_positional", positional))
            st.enter_context(stubs.patched(symnp, "format_float_scientific", lambda value, **k: render.cell_token()))
            if kind == "lod":
                lm = __import__("dataiter.list_of_dicts", fromlist=["x"])
                st.enter_context(stubs.patched(lm, "json", stubs.JsonStub(lm.json, None)))
        elif inp.get("terminal_width") is not None:
            import shutil, os
            util = __import__("dataiter.util", fromlist=["x"])
            twv = int(inp["terminal_width"])
            old = util.get_print_width
            util.get_print_width = lambda: twv - 1
            st.callback(lambda: setattr(util, "get_print_width", old))
        if how == "repr": text = repr(obj)
        elif how == "str": text = str(obj)
        elif how == "print_":
            import io
            buf = io.StringIO()
            with contextlib.redirect_stdout(buf):
                obj.print_(**kw)
            text = buf.getvalue()
            if text.endswith("\n"): text = text[:-1]
        else: text = obj.to_string(**kw)
    return {"text": text, "recv": obj}

# ---------------------------------------------------------------------------- C12 file round trips

@op
def file_roundtrip(inp, W):
    """write the object with write_<fmt>(path, **wopts), read it back with read_<fmt>(path, **ropts)"""
    import os, shutil, tempfile
    di = W.di
    obj = inp["obj"]; fmt = inp["fmt"]; suffix = inp["suffix"]
    wopts = {k: v for k, v in inp["wopts"]}; ropts = {k: v for k, v in inp["ropts"]}
    cls = di.ListOfDicts if inp["cls"] == "ListOfDicts" else di.DataFrame
    name = f"t.{fmt}{suffix}"
    if W.sym:
        from . import fsstub
        util = __import__("dataiter.util", fromlist=["x"]); dfm = __import__("dataiter.data_frame", fromlist=["x"])
        lm = __import__("dataiter.list_of_dicts", fromlist=["x"])
        fs = fsstub.FS()
        path = "/stub/" + name
        with fsstub.install(fs, W, util, dfm, lm):
            getattr(obj, f"write_{fmt}")(path, **wopts)
            written = fs.files.get(path)
            codec = written.codec if written is not None else None
            back = getattr(cls, f"read_{fmt}")(path, **ropts)
        return {"codec": codec, "back": back, "recv": obj}
    d = tempfile.mkdtemp(prefix="vf_c12_")
    try:
        path = os.path.join(d, name)
        getattr(obj, f"write_{fmt}")(path, **wopts)
        codec = None
        if os.path.exists(path):
            head = open(path, "rb").read(6)
            codec = ("gz" if head[:2] == bytes([0x1f, 0x8b]) else "bz2" if head[:3] == b"BZh" else
                     "xz" if head[:6] == bytes([0xfd, 0x37, 0x7a, 0x58, 0x5a, 0x00]) else "zip" if head[:2] == b"PK" else "none")
        back = getattr(cls, f"read_{fmt}")(path, **ropts)
        return {"codec": codec, "back": back, "recv": obj}
    finally:
        shutil.rmtree(d, ignore_errors=True)

@op
def file_restrict(inp, W):
    """DataFrame.write_<fmt> once, then read_<fmt> in full and with columns= (and dtypes=)"""
    import os, shutil, tempfile
    di = W.di
    obj = inp["obj"]; fmt = inp["fmt"]
    kw = {"columns": list(inp["cols"])}
    dt = {k: {"float": float, "datetime64[us]": "datetime64[us]"}[t] for k, t in inp.get("types") or []}
    if dt: kw["dtypes"] = dt
    name = f"t.{fmt}"
    if W.sym:
        from . import fsstub
        util = __import__("dataiter.util", fromlist=["x"]); dfm = __import__("dataiter.data_frame", fromlist=["x"])
        lm = __import__("dataiter.list_of_dicts", fromlist=["x"])
        fs = fsstub.FS()
        path = "/stub/" + name
        with fsstub.install(fs, W, util, dfm, lm):
            getattr(obj, f"write_{fmt}")(path)
            full = getattr(di.DataFrame, f"read_{fmt}")(path)
            part = getattr(di.DataFrame, f"read_{fmt}")(path, **kw)
        return {"full": full, "part": part}
    d = tempfile.mkdtemp(prefix="vf_c14_")
    try:
        path = os.path.join(d, name)
        getattr(obj, f"write_{fmt}")(path)
        full = getattr(di.DataFrame, f"read_{fmt}")(path)
        part = getattr(di.DataFrame, f"read_{fmt}")(path, **kw)
        return {"full": full, "part": part}
    finally:
        shutil.rmtree(d, ignore_errors=True)

@op
def geo_roundtrip(inp, W):
    """GeoJSON.write followed by GeoJSON.read of the written file"""
    import json, os, shutil, tempfile
    di = W.di
    data = inp["data"]
    if W.sym:
        from . import stubs
        w = geo_write({"data": data, "metadata": inp.get("metadata", []), "indent": inp.get("indent")}, W)
        if w["parsed"] is None:
            raise ValueError("written file is not valid JSON: " + str(w["error"]))
        mod = _geo_module(W)
        with stubs.patched(mod, "json", stubs.JsonStub(mod.json, w["parsed"])), stubs.patched(mod.util, "xopen", lambda *a, **k: stubs.StubFile()):
            back = di.GeoJSON.read("x.geojson")
        return {"back": back}
    for k, v in inp.get("metadata", []):
        data.metadata[k] = v
    d = tempfile.mkdtemp(prefix="vf_geo_")
    try:
        p = os.path.join(d, "x.geojson")
        data.write(p)
        return {"back": di.GeoJSON.read(p)}
    finally:
        shutil.rmtree(d, ignore_errors=True)

@op
def str_proxy(inp, W):
    """x.str.<name>(*args) next to numpy.strings.<name>(x, *args)"""
    np = W.np
    x = inp["x"]; name = inp["name"]; args = list(inp["args"])
    from .tree import Raised
    def call(f):
        try: return f()
        except Exception as e: return Raised(type(e).__name__, str(e)[:100])
    via = call(lambda: getattr(x.str, name)(*args))
    direct = call(lambda: getattr(np.strings, name)(x, *args))
    return {"via": via, "direct": direct, "cls": type(via).__name__}

@op
def geo_restrict(inp, W):
    full = geo_read({"collection": inp["collection"]}, W)["out"]
    part = geo_read({"collection": inp["collection"], "columns": inp["cols"], "dtypes": inp.get("dtypes")}, W)["out"]
    return {"full": full, "part": part}

@op
def vec_op_twice(inp, W):
    """the same Vector object is used, edited in place, and used again (state kept on the object must not leak)"""
    v = inp["v"]; m = inp["method"]
    def call():
        if m == "sort": return v.sort(dir=inp["dir"])
        if m == "rank": return v.rank(method=inp["rank_method"])
        return v.unique()
    first = call()
    for i, x in enumerate(inp["new"]):
        v[i] = x
    out = call()
    return {"out": out, "recv": v, "alias": W.shares(out, v)}
