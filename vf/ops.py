"""World-agnostic operations: the same function body drives the real dataiter code in the
symbolic process (dataiter over symnp) and in the replay process (dataiter over real NumPy).

Each op receives materialised inputs (a dict of live objects) and the world W (W.di, W.np,
W.shares, W.sym) and returns live objects that the world's codec turns into a value tree.
Nothing here may import z3 or numpy at module level.
"""

OPS = {}

def op(f):
    OPS[f.__name__] = f
    return f

class RealWorld:
    sym = False
    def __init__(self):
        import numpy as np
        import dataiter as di
        self.np = np
        self.di = di
    def shares(self, a, b):
        return bool(self.np.shares_memory(a, b))

class SymWorld:
    sym = True
    def __init__(self):
        from . import env, symnp
        self.di = env.load()
        self.np = symnp
    def shares(self, a, b):
        return self.np.shares_memory(a, b)

# ---------------------------------------------------------------------------- helpers

def _frame_alias(W, out, *inputs):
    """names of result columns that share memory with any column of any input frame"""
    bad = []
    if not isinstance(out, dict):
        return bad
    for name, col in dict.items(out):
        for k, f in enumerate(inputs):
            for iname, icol in dict.items(f):
                if W.shares(col, icol):
                    bad.append([name, k, iname])
    return bad

def _mk_condition(W, data, cond):
    """filter conditions in the three interchangeable forms of the documentation"""
    kind = cond["kind"]
    if kind == "mask":
        return (cond["mask"],), {}
    if kind == "kw":
        return (), {cond["col"]: cond["value"]}
    if kind == "lambda":
        col, value = cond["col"], cond["value"]
        return ((lambda d: d[col] == value),), {}
    if kind == "expr":
        return ((data[cond["col"]] == cond["value"]),), {}
    raise ValueError(kind)

# ---------------------------------------------------------------------------- C02 row subsetting

@op
def df_subset(inp, W):
    """inp: data (DataFrame), method, and per-method arguments"""
    data = inp["data"]
    m = inp["method"]
    if m in ("filter", "filter_out"):
        a, k = _mk_condition(W, data, inp["cond"])
        out = getattr(data, m)(*a, **k)
    elif m in ("slice", "slice_off"):
        out = getattr(data, m)(rows=inp["rows"])
    elif m in ("head", "tail"):
        out = getattr(data, m)(inp["n"])
    elif m == "drop_na":
        out = data.drop_na(*inp["cols"])
    elif m == "unique":
        out = data.unique(*inp["cols"])
    elif m == "sample":
        # environment stub for the RNG: the draw is an input (arbitrary distinct indices, any order)
        draw = inp["draw"]
        orig = W.np.random.choice
        W.np.random.choice = lambda n, size=None, replace=True: draw
        try:
            out = data.sample(inp["n"])
        finally:
            W.np.random.choice = orig
    else:
        raise ValueError(m)
    return {"out": out, "recv": data, "alias": _frame_alias(W, out, data)}
