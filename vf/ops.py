"""World-agnostic operations: the same function body drives the real dataiter code in the
symbolic process (dataiter over symnp) and in the replay process (dataiter over real NumPy).

Each op receives materialised inputs (a dict of live objects) and the world W (W.di, W.np,
W.shares, W.sym) and returns live objects that the world's codec turns into a value tree.
Nothing here may import z3 or numpy at module level.
"""

OPS = {}

def op(f):
    OPS[f.__name__] = f
    return f

class RealWorld:
    sym = False
    def __init__(self):
        import numpy as np
        import dataiter as di
        self.np = np
        self.di = di
    def shares(self, a, b):
        return bool(self.np.shares_memory(a, b))

class SymWorld:
    sym = True
    def __init__(self):
        from . import env, symnp
        self.di = env.load()
        self.np = symnp
    def shares(self, a, b):
        return self.np.shares_memory(a, b)

# ---------------------------------------------------------------------------- helpers

def _frame_alias(W, out, *inputs):
    """names of result columns that share memory with any column of any input frame"""
    bad = []
    if not isinstance(out, dict):
        return bad
    for name, col in dict.items(out):
        for k, f in enumerate(inputs):
            for iname, icol in dict.items(f):
                if W.shares(col, icol):
                    bad.append([name, k, iname])
    return bad

def _mk_condition(W, data, cond):
    """filter conditions in the three interchangeable forms of the documentation"""
    kind = cond["kind"]
    if kind == "mask":
        return (cond["mask"],), {}
    if kind == "kw":
        return (), {cond["col"]: cond["value"]}
    if kind == "lambda":
        col, value = cond["col"], cond["value"]
        return ((lambda d: d[col] == value),), {}
    if kind == "expr":
        return ((data[cond["col"]] == cond["value"]),), {}
    raise ValueError(kind)

# ---------------------------------------------------------------------------- C02 row subsetting

@op
def df_subset(inp, W):
    """inp: data (DataFrame), method, and per-method arguments"""
    data = inp["data"]
    m = inp["method"]
    if m in ("filter", "filter_out"):
        a, k = _mk_condition(W, data, inp["cond"])
        out = getattr(data, m)(*a, **k)
    elif m in ("slice", "slice_off"):
        out = getattr(data, m)(rows=inp["rows"])
    elif m in ("head", "tail"):
        out = getattr(data, m)(inp["n"])
    elif m == "drop_na":
        out = data.drop_na(*inp["cols"])
    elif m == "unique":
        out = data.unique(*inp["cols"])
    elif m == "sample":
        # environment stub for the RNG: the draw is an input (arbitrary distinct indices, any order)
        draw = inp["draw"]
        orig = W.np.random.choice
        W.np.random.choice = lambda n, size=None, replace=True: draw
        try:
            out = data.sample(inp["n"])
        finally:
            W.np.random.choice = orig
    else:
        raise ValueError(m)
    return {"out": out, "recv": data, "alias": _frame_alias(W, out, data)}

# ---------------------------------------------------------------------------- C03 sort

@op
def df_sort(inp, W):
    data = inp["data"]
    out = data.sort(**{name: d for name, d in inp["by"]})
    return {"out": out, "recv": data, "alias": _frame_alias(W, out, data)}

# ---------------------------------------------------------------------------- C04 grouping

@op
def df_group(inp, W):
    data = inp["data"]
    by = inp["by"]
    mode = inp["mode"]
    di = W.di
    if mode == "aggregate":
        seen = []
        def probe(d):
            seen.append([x for x in d.rid])
            return d.nrow
        out = data.group_by(*by).aggregate(k=probe, n=di.count())
        return {"out": out, "seen": seen}
    if mode == "count":
        return {"out": data.count(*by)}
    if mode == "split":
        return {"out": [list(x) for x in data.split(*by)]}
    if mode == "modify":
        out = data.group_by(*by).modify(size=lambda d: d.nrow, first=lambda d: d.rid[0])
        return {"out": out}
    if mode == "helper":
        out = data.group_by(*by).aggregate(
            a1=di.mean("v"), a2=lambda d: di.mean(d.v),
            b1=di.max("v"), b2=lambda d: di.max(d.v),
            c1=di.first("v"), c2=lambda d: di.first(d.v),
            d1=di.count(), d2=lambda d: di.count(d.v))
        return {"out": out}
    raise ValueError(mode)

# ---------------------------------------------------------------------------- C05 joins

@op
def df_join(inp, W):
    a, b = inp["a"], inp["b"]
    by = [x if isinstance(x, str) else tuple(x) for x in inp["by"]]
    out = getattr(a, inp["kind"])(b, *by)
    return {"out": out, "a": a, "b": b, "alias": _frame_alias(W, out, a, b)}
