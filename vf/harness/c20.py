"""C20 — text rendering is total, side-effect free and structurally faithful."""
import z3

from .. import symx, render
from ..run import Harness
from ..symx import choice, SymI64
from ..tree import Arr, Frame, LoD, Raised
from .common import BV, T, mk_col, kind_of, KIND_DTYPE
from .c06 import frame_unchanged, arr_unchanged

STR_POOL = ["a", "日本語テキスト", "two\nlines", "x" * 45, "", "é", "cr\rlf", "ls\u2028x", "end\n"]      # incl. line boundaries other than LF, and one at the end
NAMES = ["a", "日本", "a_rather_long_column_name"]
DTYPE_LABEL = {"i": "int64", "f": "float64", "T": "string", "O": "object", "b": "bool", "D": "datetime64[D]", "U": "<U7"}

def pool_col(kind, n, tag):
    if kind == "T":
        return Arr("string", [choice(f"{tag}{i}", STR_POOL) for i in range(n)])
    if kind == "U":
        # a fixed-width string column (what NumPy functions such as np.where or astype(str) hand back)
        return Arr("<U7", [choice(f"{tag}{i}", ["a", "ab\ncd", "", "wide 日本", "end\n"]) for i in range(n)])
    if kind == "O":
        return Arr("object", [choice(f"{tag}{i}", [None, "obj", ("t", 1), "y" * 45, "two\nlines"]) for i in range(n)])
    if kind == "D":
        return Arr("datetime64[D]", [BV(choice(f"{tag}{i}", [18321, symx.INT64_MIN])) for i in range(n)])
    return mk_col(kind, n, tag)

def width_t(s):
    return render.width_term(s)

class RenderFrame(Harness):
    prop = "C20"; opname = "render_op"
    goals = ["data_frame.py:DataFrame.to_string", "vector.py:Vector.to_strings", "util.py:upad", "util.py:ulen"]
    SETTINGS = [(), (("PRINT_MAX_ROWS", 1),), (("PRINT_TRUNCATE_WIDTH", 5), ("PRINT_THOUSAND_SEPARATOR", ",")), (("PRINT_FLOAT_PRECISION", 0), ("PRINT_MAX_ROWS", 2)),
                (("PRINT_MAX_WIDTH", 30),)]
    def __init__(self, kinds, maxn, cls="DataFrame", settings=False, names=None):
        self.kinds = kinds; self.maxn = maxn; self.cls = cls; self.settings = settings; self.names = names
        self.name = f"C20.{'frame' if cls == 'DataFrame' else 'geojson'}.{'+'.join(kinds)}{'.settings' if settings else ''}{'.named_' + '_'.join(names) if names else ''}.n{maxn}"
        self.bounds = {"rows": f"0..{maxn}", "columns": [DTYPE_LABEL[k] for k in kinds], "max_width": "5..60 or terminal 20..200",
                       "max_rows": "1..nrow+1 or default", "truncate_width": "default, 5, 36",
                       "strings": "from a pool with CJK (wide), combining marks, multi-line, 45 characters, empty"}
        self.symbolic = ["numeric cells (formatted to texts of arbitrary width 1..30)", "max_width", "max_rows", "terminal width"]
        self.choice_dims = ["nrow", "string / object cells from a pool", "truncate_width", "calling form"]
    def build(self, ctx):
        n = choice("n", range(self.maxn + 1))
        cols = {}
        for j, k in enumerate(self.kinds):
            cols[(self.names or NAMES)[j]] = pool_col(k, n, f"c{j}")
        if self.cls == "GeoJSON":
            cols["geometry"] = Arr("object", [choice(f"g{i}", [None, {"type": "Point", "coordinates": [1, 2]}]) for i in range(n)])
        how = choice("how", ["to_string", "repr", "print_"] + (["str"] if self.settings or not self.kinds else []))
        inp = {"obj": Frame(cols, cls=self.cls), "kind": "frame", "how": how, "kwargs": []}
        if self.settings:
            inp["settings"] = [list(x) for x in choice("settings", self.SETTINGS)]
        if how in ("to_string", "print_") and choice("give_max_width", [True, False]):
            inp["kwargs"].append(["max_width", render.SymWidth(symx.sym_int_range("max_width", 5, 60))])
        else:
            inp["terminal_width"] = SymI64(symx.sym_int_range("terminal_width", 20, 200))
        if how in ("to_string", "print_") and n >= 1 and choice("give_max_rows", [False, True]):
            inp["kwargs"].append(["max_rows", SymI64(symx.sym_int_range("max_rows", 1, n + 1))])
        if how in ("to_string", "print_"):
            tw = choice("truncate_width", [None, 5, 36])
            if tw is not None: inp["kwargs"].append(["truncate_width", tw])
        return inp
    def conformance_ignore(self, real, pred):
        return True      # texts differ by construction (tokens of arbitrary width vs. concrete digits); the structure is asserted
    def spec(self, inp, out):
        if isinstance(out, Raised): return [(f"does not raise ({out.type}: {out.msg[:80]})", T(False))]
        frame = inp["obj"]; text = out["text"]
        cl = frame_unchanged(frame, out["recv"], "rendered object")
        names = frame.names
        nrow = len(next(iter(frame.cols.values()))) if frame.cols else 0
        kw = dict((k, v) for k, v in inp["kwargs"])
        if not names:
            return cl + [("empty frame renders as empty text", T(text == ""))]
        mr = kw.get("max_rows")
        lines = text.split("\n")
        cl.append(("text starts with '.'", T(lines[0] == ".")))
        cut_line = [l for l in lines if l.startswith("... ") and l.endswith("rows total")]
        body = lines[1:]
        if cut_line: body = body[:-1]
        cl.append(("body ends with '.'", T(bool(body) and body[-1] == ".")))
        body = body[:-1] if body and body[-1] == "." else body
        blocks = [[]]
        for ln in body:
            if ln == "": blocks.append([])
            else: blocks[-1].append(ln)
        nshown = len(blocks[0]) - 3 if blocks and len(blocks[0]) >= 3 else -1
        if mr is None:
            dflt = dict(tuple(x) for x in inp.get("settings") or []).get("PRINT_MAX_ROWS", 100)
            cl.append(("min(nrow, max_rows) data rows are shown", T(nshown == min(nrow, dflt))))
            cl.append(("total row count stated iff rows were cut", T(bool(cut_line) == (nrow > dflt))))
            if cut_line: cl.append(("the stated total is nrow", T(cut_line[0] == f"... {nrow} rows total")))
        else:
            m = BV(mr)
            cl.append(("min(nrow, max_rows) data rows are shown", z3.If(m < nrow, m, BV(nrow)) == BV(nshown)))
            cl.append(("total row count stated iff rows were cut", (m < nrow) == T(bool(cut_line))))
            if cut_line: cl.append(("the stated total is nrow", T(cut_line[0] == f"... {nrow} rows total")))
        for bi, b in enumerate(blocks):
            cl.append((f"block {bi}: header, dtype, rule and the same data rows", T(len(b) == nshown + 3)))
            ws = [width_t(l) for l in b]
            for li, w in enumerate(ws[1:]):
                cl.append((f"block {bi}: line {li + 1} has the display width of the header line", w == ws[0]))
        header_text = " ".join(b[0] for b in blocks if b)
        dtype_text = " ".join(b[1] for b in blocks if len(b) > 1)
        for nm in names:
            cl.append((f"column name {nm} shown", T(nm in header_text)))
            col = frame.cols[nm]
            label = "string" if col.dtype == "string" else col.dtype
            cl.append((f"dtype label of {nm} shown", T(label in dtype_text)))
        return cl

class RenderVector(Harness):
    prop = "C20"; opname = "render_op"
    goals = ["vector.py:Vector.to_string", "vector.py:Vector.to_strings"]
    def __init__(self, kind, maxn):
        self.kind = kind; self.maxn = maxn
        self.name = f"C20.vector.{kind}.n{maxn}"
        self.bounds = {"elements": f"0..{maxn}", "dtype": DTYPE_LABEL[kind], "max_elements": "default or 0..n"}
        self.symbolic = ["numeric cells", "terminal width"]; self.choice_dims = ["length", "pool strings", "max_elements"]
    def build(self, ctx):
        n = choice("n", range(self.maxn + 1))
        v = pool_col(self.kind, n, "x"); v.cls = "Vector"
        inp = {"obj": v, "kind": "vector", "how": choice("how", ["to_string", "repr", "str"]), "kwargs": [],
               "terminal_width": SymI64(symx.sym_int_range("terminal_width", 20, 200))}
        if inp["how"] == "to_string" and choice("give_max", [False, True]):
            inp["kwargs"].append(["max_elements", choice("max_elements", range(0, n + 1))])
        return inp
    def conformance_ignore(self, real, pred): return True
    def spec(self, inp, out):
        if isinstance(out, Raised): return [(f"does not raise ({out.type}: {out.msg[:80]})", T(False))]
        v = inp["obj"]; text = out["text"]
        label = "string" if v.dtype == "string" else v.dtype
        cl = arr_unchanged(v, out["recv"], "rendered vector")
        cl.append(("rendering starts with '[' and ends with the dtype label", T(text.startswith("[") and text.rstrip().endswith("] " + label))))
        kw = dict((k, v_) for k, v_ in inp["kwargs"])
        if "max_elements" in kw:
            cl.append(("an ellipsis is shown iff elements were cut", T(("..." in text.split("]")[0].split()) == (kw["max_elements"] < len(v))) if self.kind != "T" else T(True)))
        return cl

class RenderLod(Harness):
    prop = "C20"; opname = "render_op"
    goals = ["list_of_dicts.py:ListOfDicts.to_string"]
    def __init__(self, maxn):
        self.maxn = maxn; self.name = f"C20.lod.n{maxn}"
        self.bounds = {"items": f"0..{maxn}", "max_items": "default or 0..n"}
        self.symbolic = ["item values"]; self.choice_dims = ["length", "max_items"]
    def build(self, ctx):
        from .c15 import mk_items
        n = choice("n", range(self.maxn + 1))
        inp = {"obj": LoD(mk_items(ctx, n, ["k"])), "kind": "lod", "how": choice("how", ["to_string", "repr", "print_", "str"]), "kwargs": []}
        if inp["how"] not in ("repr", "str") and choice("give_max", [False, True]):
            inp["kwargs"].append(["max_items", choice("max_items", range(0, n + 1))])
        return inp
    def conformance_ignore(self, real, pred): return True
    def spec(self, inp, out):
        if isinstance(out, Raised): return [(f"does not raise ({out.type}: {out.msg[:80]})", T(False))]
        from .c15 import same_item
        n = len(inp["obj"].items)
        kw = dict((k, v) for k, v in inp["kwargs"])
        cl = []
        recv = out["recv"]
        cl.append(("list unchanged", T(isinstance(recv, LoD) and len(recv.items) == n)))
        if isinstance(recv, LoD):
            for a, b in zip(recv.items, inp["obj"].items): cl.extend(same_item(dict(a), dict(b), "item"))
        limit = kw.get("max_items", 10)
        cl.append(("item count stated iff items were cut", T((f"{n} items total" in out["text"]) == (limit < n))))
        return cl

def harnesses(tier):
    q = tier == "quick"
    hs = [RenderFrame(["i"], 2, settings=True), RenderFrame(["T"], 1 if q else 2, settings=True), RenderFrame(["f"], 1 if q else 2, settings=True),
          RenderFrame(["i"], 2), RenderFrame(["f"], 1 if q else 2), RenderFrame(["T", "i"], 1 if q else 2), RenderFrame(["O", "D"], 2),
          RenderFrame(["i"], 2, cls="GeoJSON"), RenderFrame([], 0), RenderFrame(["U"], 2),
          RenderFrame(["i", "T"], 1, names=["count", "nrow"]), RenderFrame(["i"], 1, names=["items"])]      # columns named like methods / properties
    for k in ("i", "f", "T", "O", "b", "D"):
        hs.append(RenderVector(k, 2))
    hs.append(RenderLod(2))
    return hs
