"""C05 — joins follow first-match relational semantics and never lose rows."""
import z3

from .. import symx
from ..run import Harness, Prepared
from ..symx import choice
from ..tree import Arr, Frame, Raised
from .common import (BV, FP, T, cell_ident, const_ints, isna, kind_of, mk_col, rid_col, same_key, val_eq, KIND_DTYPE)

JOINS = ["left_join", "inner_join", "semi_join", "anti_join", "full_join"]

def fp_is_int(c, j):
    """float cell c holds the integer j"""
    return z3.fpEQ(c, symx.fpval(float(j)))

class Join(Harness):
    prop = "C05"
    opname = "df_join"
    def __init__(self, kind, keykinds, na, nb, renamed=False, rightkinds=None, sameleft=False):
        self.kind = kind; self.keykinds = keykinds; self.na = na; self.nb = nb; self.renamed = renamed or sameleft; self.sameleft = sameleft
        self.rightkinds = rightkinds or keykinds
        self.name = f"C05.{kind}.{'+'.join(keykinds)}{'.vs.' + '+'.join(rightkinds) if rightkinds else ''}{'.renamed' if renamed else ''}{'.sameleft' if sameleft else ''}.{na}x{nb}"
        self.bounds = {"left rows": f"0..{na}", "right rows": f"0..{nb}", "key dtypes": [KIND_DTYPE[k] for k in keykinds],
                       "right key dtypes": [KIND_DTYPE[k] for k in self.rightkinds],
                       "keys named differently on the two sides": (self.renamed and "pairs written as tuples and as lists"),
                       "payload": "left: float64 + row id; right: float64 + int64 + row id"}
        self.symbolic = ["all key and payload cells on both sides"]
        self.choice_dims = ["left nrow", "right nrow"]
        self.goals = [f"data_frame.py:DataFrame.{kind}", "data_frame.py:DataFrame._get_join_indices"]
    def build(self, ctx):
        na = choice("na", range(self.na + 1)); nb = choice("nb", range(self.nb + 1))
        A = {}; B = {}; by = []
        for j, k in enumerate(self.keykinds):
            an = "k%d" % (0 if self.sameleft else j); bn = ("r%d" % j) if self.renamed else an       # sameleft: one left column in every key pair
            if an not in A: A[an] = mk_col(k, na, "a" + an)
            B[bn] = mk_col(self.rightkinds[j], nb, "b" + bn)
            by.append([an, bn] if self.renamed else an)
        A["pa"] = mk_col("f", na, "pa"); A["ra"] = rid_col(na)
        B["pb"] = mk_col("f", nb, "pb"); B["pi"] = mk_col("i", nb, "pi"); B["rb"] = rid_col(nb)
        inp = {"a": Frame(A), "b": Frame(B), "kind": self.kind, "by": by}
        if self.renamed: inp["pair_form"] = choice("pair_form", ["tuple", "list"])   # both spellings of a key pair are accepted
        return inp
    def _keys(self, inp):
        A, B = inp["a"], inp["b"]
        ka = [A.cols[x if isinstance(x, str) else x[0]] for x in inp["by"]]
        kb = [B.cols[x if isinstance(x, str) else x[1]] for x in inp["by"]]
        return ka, kb
    def regions(self, inp):
        return {}
    def spec(self, inp, out):
        if isinstance(out, Raised):
            return [(f"does not raise ({out.type}: {out.msg[:60]})", T(False))]
        A, B = inp["a"], inp["b"]
        na, nb = len(A.cols["ra"]), len(B.cols["rb"])
        ka, kb = self._keys(inp)
        kinds = [kind_of(c) for c in ka]
        anames = [c if isinstance(c, str) else c[0] for c in inp["by"]]
        bnames = [c if isinstance(c, str) else c[1] for c in inp["by"]]
        def match(i, j):
            return z3.And([z3.And(z3.Not(isna(a.cells[i], k)), z3.Not(isna(b.cells[j], k)), val_eq(a.cells[i], b.cells[j], k))
                           for a, b, k in zip(ka, kb, kinds)])
        def first(i, j): return z3.And(match(i, j), *[z3.Not(match(i, q)) for q in range(j)])
        def nomatch(i): return z3.And([z3.Not(match(i, j)) for j in range(nb)] or [T(True)])
        res = out["out"]
        kind = self.kind
        cl = [("result is a DataFrame", T(isinstance(res, Frame) and res.cls == "DataFrame"))]
        extra = [n for n in B.names if n not in bnames and n not in A.names]
        want = A.names + (extra if kind in ("left_join", "inner_join", "full_join") else [])
        cl.append((f"result columns are {want}", T(res.names == want)))
        if res.names != want: return cl
        m = len(res.cols["ra"])
        def left_cols_identical(r, i, label):
            for n in A.names:
                if res.cols[n].dtype != A.cols[n].dtype:
                    cl.append((f"{label}: dtype of left column {n} unchanged", T(False))); continue
                cl.append((f"{label}: left column {n} unchanged", cell_ident(res.cols[n].cells[r], A.cols[n].cells[i], kind_of(A.cols[n]))))
        def right_payload(r, i, label, upcast):
            """clauses for output row r stemming from left row i: right payload of first match or missing"""
            for n in extra:
                oc, bc = res.cols[n], B.cols[n]
                bk = kind_of(bc)
                if upcast and bk == "i":
                    if oc.dtype != "float64":
                        cl.append((f"{label}: right column {n} in a type able to hold missing values", T(False))); continue
                    for j in range(nb):
                        cl.append((f"{label}: {n} taken from the first matching right row", z3.Implies(first(i, j), oc.cells[r] == symx.fp_of_bv(bc.cells[j]))))
                    cl.append((f"{label}: {n} missing when nothing matches", z3.Implies(nomatch(i), z3.fpIsNaN(oc.cells[r]))))
                else:
                    if oc.dtype != bc.dtype:
                        cl.append((f"{label}: dtype of right column {n}", T(False))); continue
                    for j in range(nb):
                        cl.append((f"{label}: {n} taken from the first matching right row", z3.Implies(first(i, j), cell_ident(oc.cells[r], bc.cells[j], bk))))
                    if upcast:
                        cl.append((f"{label}: {n} missing when nothing matches", z3.Implies(nomatch(i), isna(oc.cells[r], bk))))
        if kind == "left_join":
            ra = const_ints(res.cols["ra"])
            cl.append(("every left row exactly once, in order", T(ra == list(range(na)))))
            if ra != list(range(na)): return cl
            for i in range(na):
                left_cols_identical(i, i, f"row {i}")
                right_payload(i, i, f"row {i}", True)
        elif kind in ("inner_join", "semi_join", "anti_join"):
            ra = const_ints(res.cols["ra"])
            cl.append(("left rows in original order, each at most once", T(all(a < b for a, b in zip(ra, ra[1:])) and all(0 <= r < na for r in ra))))
            if not (all(a < b for a, b in zip(ra, ra[1:])) and all(0 <= r < na for r in ra)): return cl
            for i in range(na):
                hit = z3.Not(nomatch(i))
                cl.append((f"left row {i} kept iff it has {'no ' if kind == 'anti_join' else 'a '}match",
                           (z3.Not(hit) if kind == "anti_join" else hit) == T(i in ra)))
            for r, i in enumerate(ra):
                left_cols_identical(r, i, f"row {r}")
                if kind == "inner_join":
                    right_payload(r, i, f"row {r}", False)
        elif kind == "full_join":
            rac, rbc = res.cols["ra"], res.cols["rb"]
            # row ids come back as int64 (no missing introduced) or float64 (missing = NaN)
            def is_id(col, r, v):
                c = col.cells[r]
                return fp_is_int(c, v) if col.dtype == "float64" else (BV(c) == BV(v)) if col.dtype == "int64" else T(False)
            def id_missing(col, r):
                return z3.fpIsNaN(col.cells[r]) if col.dtype == "float64" else T(False)
            for i in range(na):
                cl.append((f"left row {i} appears in the result", z3.Or([is_id(rac, r, i) for r in range(m)] or [T(False)])))
            for j in range(nb):
                cl.append((f"right row {j} appears in the result", z3.Or([is_id(rbc, r, j) for r in range(m)] or [T(False)])))
            for r in range(m):
                cl.append((f"result row {r} stems from a left or a right row",
                           z3.Or([is_id(rac, r, i) for i in range(na)] + [is_id(rbc, r, j) for j in range(nb)] or [T(False)])))
                for i in range(na):
                    for j in range(nb):
                        cl.append((f"result row {r} never pairs rows with unequal keys",
                                   z3.Implies(z3.And(is_id(rac, r, i), is_id(rbc, r, j)), match(i, j))))
                    # left columns of a row stemming from left row i
                    for n in A.names:
                        if n == "ra": continue
                        oc = res.cols[n]
                        if oc.dtype != A.cols[n].dtype and not (n in anames and kind_of(oc) in ("T", "U") and kind_of(A.cols[n]) in ("T", "U")):
                            cl.append((f"dtype of left column {n}", T(False))); continue
                        kk = kind_of(A.cols[n])
                        # key columns of a row produced by the reverse join carry the (equal) right key:
                        # equal under ==, not necessarily bit-identical (-0.0 == 0.0)
                        eqf = same_key if n in anames else cell_ident
                        cl.append((f"result row {r}: left column {n} is left row's value",
                                   z3.Implies(is_id(rac, r, i), eqf(oc.cells[r], A.cols[n].cells[i], kk))))
                for j in range(nb):
                    oc = res.cols["pb"]
                    cl.append((f"result row {r}: right payload is right row's value",
                               z3.Implies(is_id(rbc, r, j), cell_ident(oc.cells[r], B.cols["pb"].cells[j], "f")) if oc.dtype == "float64" else T(False)))
                    # a row stemming only from a right row carries that row's key under the left name
                    for an, bcol, k in zip(anames, kb, kinds):
                        oc = res.cols[an]
                        both_str = kind_of(oc) in ("T", "U") and kind_of(bcol) in ("T", "U")       # fixed- and variable-width strings promote to variable width
                        if oc.dtype != bcol.dtype and not both_str: cl.append((f"dtype of key column {an}", T(False))); continue
                        cl.append((f"result row {r}: unmatched right row keeps its key",
                                   z3.Implies(z3.And(is_id(rbc, r, j), id_missing(rac, r)), cell_ident(oc.cells[r], bcol.cells[j], k))))
        return cl

def harnesses(tier):
    hs = []
    if tier == "quick":
        for kind in JOINS:
            hs.append(Join(kind, ["f"], 2, 2))
            hs.append(Join(kind, ["T"], 2, 2))
        for kind in ("left_join", "anti_join"):
            hs.append(Join(kind, ["i"], 2, 3))
        hs.append(Join("left_join", ["i"], 2, 2, renamed=True))
        hs.append(Join("full_join", ["i"], 2, 2, renamed=True))
        hs.append(Join("inner_join", ["i", "f"], 2, 2))
        hs.append(Join("left_join", ["i", "i"], 2, 2, sameleft=True)); hs.append(Join("semi_join", ["i", "i"], 2, 2, sameleft=True))
        for kind in ("left_join", "anti_join", "full_join"):
            hs.append(Join(kind, ["td"], 2, 2))
        hs.append(Join("semi_join", ["us"], 2, 2))
        hs.append(Join("left_join", ["ns"], 2, 2)); hs.append(Join("anti_join", ["ns"], 1, 2))
        hs.append(Join("inner_join", ["U"], 2, 2, rightkinds=["T"])); hs.append(Join("full_join", ["T"], 1, 2, rightkinds=["U"]))
        hs.append(Prepared(Join("left_join", ["T"], 2, 2))); hs.append(Prepared(Join("full_join", ["f"], 2, 2)))
    else:
        for kind in JOINS:
            for k in ["f", "i", "T", "D", "b", "O", "td", "us", "ns"]:
                hs.append(Join(kind, [k], 3, 3))
            hs.append(Join(kind, ["i"], 3, 3, renamed=True))
            hs.append(Join(kind, ["i", "f"], 2, 3))
            if kind != "full_join":       # an unmatched right row would have two key values for the one left column: no defined answer
                hs.append(Join(kind, ["i", "i"], 2, 2, sameleft=True))
            hs.append(Join(kind, ["T", "i"], 2, 2, renamed=True))
            hs.append(Join(kind, ["U"], 2, 2, rightkinds=["T"])); hs.append(Join(kind, ["T"], 2, 2, rightkinds=["U"]))
    return hs
