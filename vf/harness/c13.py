"""C13 — conversions to ListOfDicts, JSON, pandas and Arrow are invertible."""
import z3

from .. import symx
from ..run import Harness
from ..symx import choice, SymPyInt, SymStr, SymF64, SymI64, SymBool
from ..tree import Arr, Frame, LoD, Raised
from .common import BV, T, cell_ident, isna, kind_of, mk_col, summary_equal, KIND_DTYPE

_US = {"D": 86400 * 10**6, "h": 3600 * 10**6, "m": 60 * 10**6, "s": 10**6, "ms": 1000, "us": 1}

def _dt_same(cell, k, col, r):
    """a date / datetime cell and row r of the column that came back denote the same instant or are both missing; the column
    that comes back may have another unit (pandas: ns) or hold date objects (dtype is not promised for dates)"""
    from ..symx import SymDT
    missing = cell == symx.INT64_MIN
    us = cell * _US[k]
    oc = col.cells[r]
    if col.dtype == "object":
        if oc is None: return missing
        if isinstance(oc, SymDT) and oc.unit in _US: return z3.And(z3.Not(missing), us == oc.e * _US[oc.unit])
        return T(False)
    if col.dtype == "string":
        # JSON has no dates: the ISO text of the value stands for it, and must lose nothing
        if type(oc) is str and oc.startswith("\ue100iso"):
            from .. import symdt
            tk = symdt.iso_lookup(oc)
            return z3.And(z3.Not(missing), us == tk[0] * _US[tk[1]]) if tk is not None and tk[1] in _US else T(False)
        if type(oc) is str:
            if oc == "": return missing
            import datetime as _dtm
            try:
                d = _dtm.datetime.fromisoformat(oc)
            except ValueError:
                return T(False)
            t = (d - _dtm.datetime(1970, 1, 1)) // _dtm.timedelta(microseconds=1)
            return z3.And(z3.Not(missing), us == BV(t))
        c = symx.tocell(oc) if not isinstance(oc, str) or isinstance(oc, symx.SymStr) else None
        return z3.And(missing, c.is_empty()) if c is not None else T(False)
    if not col.dtype.startswith("datetime64["): return T(False)
    unit = col.dtype[len("datetime64["):-1]
    o_missing = oc == symx.INT64_MIN
    if unit == "ns": same = us * 1000 == oc
    elif unit in _US: same = us == oc * _US[unit]
    else: return T(False)
    return z3.Or(z3.And(missing, o_missing), z3.And(z3.Not(missing), z3.Not(o_missing), same))

def same_frame_clauses(a, b, label, dtype_kinds=("b", "i", "f", "T"), exact_floats=True):
    """frame b (after the round trip) has the same names/order, values and missing positions as frame a, and the same
    dtype for bool/int/float/str columns with at least one non-missing value"""
    cl = [(f"{label}: same column names in the same order", T(isinstance(b, Frame) and a.names == b.names))]
    if not isinstance(b, Frame) or a.names != b.names: return cl
    for nm in a.names:
        ca, cb = a.cols[nm], b.cols[nm]
        ka = kind_of(ca) if ca.dtype != "object" else "O"; kb = kind_of(cb) if cb.dtype != "object" else "O"
        cl.append((f"{label}: {nm} has the same number of rows", T(len(ca) == len(cb))))
        if len(ca) != len(cb): continue
        if ka in dtype_kinds:
            anyval = z3.Or([z3.Not(isna(c, ka)) for c in ca.cells] or [T(False)])
            cl.append((f"{label}: {nm} keeps its dtype ({ca.dtype} -> {cb.dtype}) when it has a non-missing value", z3.Implies(anyval, T(ca.dtype == cb.dtype))))
        for r in range(len(ca)):
            if ka in _US and ka != kb:
                cl.append((f"{label}: {nm}[{r}] same instant / missing position", _dt_same(ca.cells[r], ka, cb, r)))
            elif not exact_floats and ka == "f" and kb == "f":
                # a text format carries the number, not the bit pattern: -0.0 and 0.0 are the same value there
                x, y = ca.cells[r], cb.cells[r]
                cl.append((f"{label}: {nm}[{r}] same value / missing position", z3.Or(z3.And(z3.fpIsNaN(x), z3.fpIsNaN(y)), z3.fpEQ(x, y))))
            else:
                cl.append((f"{label}: {nm}[{r}] same value / missing position", summary_equal(ca.cells[r], ka, cb.cells[r], kb)))
    return cl

class Convert(Harness):
    prop = "C13"; opname = "df_convert"
    def __init__(self, leg, kinds, maxn):
        self.leg = leg; self.kinds = kinds; self.maxn = maxn
        self.name = f"C13.{leg}.{'+'.join(kinds)}.n{maxn}"
        self.bounds = {"rows": f"1..{maxn}", "column dtypes": [KIND_DTYPE[k] for k in kinds]}
        self.symbolic = ["all cells (missing values anywhere, incl. the first row)"]; self.choice_dims = ["nrow"]
        self.goals = ["data_frame.py:DataFrame.to_list_of_dicts", "vector.py:Vector.tolist"] + (
            ["list_of_dicts.py:ListOfDicts.to_data_frame"] if leg == "lod" else ["data_frame.py:DataFrame.to_json", "data_frame.py:DataFrame.from_json"])
    def build(self, ctx):
        n = choice("n", range(1, self.maxn + 1))
        cols = {f"c{j}": mk_col(k, n, f"c{j}") for j, k in enumerate(self.kinds)}
        inp = {"data": Frame(cols), "leg": self.leg}
        if self.leg == "json" and choice("back_dtypes", [False, True]): inp["back_dtypes"] = True
        return inp
    def probes(self, inp):
        # str() of a date / datetime is an uninterpreted lossless text in the model: observe the real text where precision matters
        pr = []
        for nm, col in inp["data"].cols.items():
            if kind_of(col) == "us":
                pr.append((f"{nm}: a datetime with an odd number of microseconds", z3.Or([z3.And(c != symx.INT64_MIN, z3.Extract(0, 0, c) == 1) for c in col.cells])))
                pr.append((f"{nm}: a datetime before the year 1000", z3.Or([z3.And(c != symx.INT64_MIN, c < -30610224000 * 10**6) for c in col.cells])))
            if kind_of(col) == "D":
                pr.append((f"{nm}: a date before the year 1000", z3.Or([z3.And(c != symx.INT64_MIN, c < -354285) for c in col.cells])))
            if kind_of(col) == "f":
                # Python's json writes and reads Infinity / -Infinity / NaN; the JSON codec is a contract model: observe the real one
                cs = col.cells
                pr.append((f"{nm}: positive infinity", z3.Or([z3.And(z3.fpIsInf(c), z3.fpIsPositive(c)) for c in cs])))
                pr.append((f"{nm}: negative infinity", z3.Or([z3.And(z3.fpIsInf(c), z3.fpIsNegative(c)) for c in cs])))
                pr.append((f"{nm}: first row missing, another present", z3.And(z3.fpIsNaN(cs[0]), z3.Or([z3.Not(z3.fpIsNaN(c)) for c in cs[1:]] + [T(False)]))))
                pr.append((f"{nm}: integral values only", z3.And([z3.And(z3.Not(z3.fpIsNaN(c)), z3.Not(z3.fpIsInf(c)), c == z3.fpRoundToIntegral(z3.RTZ(), c)) for c in cs])))
                pr.append((f"{nm}: subnormal value", z3.Or([z3.fpIsSubnormal(c) for c in cs])))
        return pr
    def spec(self, inp, out):
        if isinstance(out, Raised): return [(f"does not raise ({out.type}: {out.msg[:80]})", T(False))]
        data = inp["data"]; n = len(next(iter(data.cols.values())))
        mid = out["mid"]
        items = [dict(x) for x in mid.items] if isinstance(mid, LoD) else mid
        cl = [("one record per row", T(len(items) == n))]
        for r, it in enumerate(items[:n]):
            cl.append((f"record {r}: one field per column, in column order", T(list(it) == data.names)))
            if list(it) != data.names: continue
            for nm in data.names:
                col = data.cols[nm]; k = kind_of(col)
                v = it[nm]
                cl.append((f"record {r}: {nm} is null iff the cell is missing", isna(col.cells[r], k) == T(v is None)))
        cl += same_frame_clauses(data, out["back"], "back-conversion", ("b", "i", "f", "T") if self.leg == "lod" else ("b", "i", "f", "T"))
        return cl

def foreign_col(ctx, kind, n, tag):
    """(array handed over by the foreign library, null mask) for a column whose dataiter dtype would be `kind`"""
    if kind == "T":
        cells = []; mask = []
        for i in range(n):
            if choice(f"{tag}{i}_null", [False, True]): cells.append(None); mask.append(T(True))
            else:
                c = symx.sym_str(f"{tag}{i}"); ctx.assume(z3.Not(c.is_empty()), note="foreign string cells: non-empty strings or null")
                cells.append(SymStr(c)); mask.append(T(False))
        return Arr("object", cells), Arr("bool", mask)
    if kind == "Ob":
        cells = []; mask = []
        for i in range(n):
            if choice(f"{tag}{i}_null", [False, True]): cells.append(None); mask.append(T(True))
            else: cells.append(symx.SymPyBool(symx.sym_bool(f"{tag}{i}"))); mask.append(T(False))
        return Arr("object", cells), Arr("bool", mask)
    col = mk_col(kind, n, tag)
    return col, Arr("bool", [isna(c, kind) for c in col.cells])

class Import(Harness):
    prop = "C13"; opname = "df_import"
    def __init__(self, kind, kinds, maxn):
        self.kind = kind; self.kinds = kinds; self.maxn = maxn
        self.name = f"C13.from_{kind}.{'+'.join(kinds)}.n{maxn}"
        self.bounds = {"rows": f"1..{maxn}", "foreign columns": kinds}
        self.symbolic = ["cells"]; self.choice_dims = ["nrow", "null positions of object columns"]
        self.goals = [f"data_frame.py:DataFrame.from_{kind}"]
    def build(self, ctx):
        n = choice("n", range(1, self.maxn + 1))
        cols = []
        for j, k in enumerate(self.kinds):
            arr, mask = foreign_col(ctx, k, n, f"c{j}")
            cols.append([f"c{j}", arr, mask])
        return {"cols": cols, "kind": self.kind}
    def spec(self, inp, out):
        if isinstance(out, Raised): return [(f"does not raise ({out.type}: {out.msg[:80]})", T(False))]
        res = out["out"]
        names = [c[0] for c in inp["cols"]]
        cl = [("same column names in the same order", T(isinstance(res, Frame) and res.names == names))]
        if not isinstance(res, Frame) or res.names != names: return cl
        for (nm, arr, mask), k in zip(inp["cols"], self.kinds):
            oc = res.cols[nm]; ok = kind_of(oc) if oc.dtype != "object" else "O"
            n = len(arr)
            cl.append((f"{nm}: same number of rows", T(len(oc) == n)))
            if len(oc) != n: continue
            anyval = z3.Or([z3.Not(m) for m in mask.cells] or [T(False)])
            want = {"T": "string", "Ob": None}.get(k, arr.dtype)
            if want:
                cl.append((f"{nm}: dtype {want} when it has a non-missing value (got {oc.dtype})", z3.Implies(anyval, T(oc.dtype == want))))
            for r in range(n):
                miss = T(oc.cells[r] is None) if ok == "O" else isna(oc.cells[r], ok)
                cl.append((f"{nm}[{r}]: missing exactly where the foreign column is null", miss == mask.cells[r]))
                src = arr.cells[r]
                sk = "O" if arr.dtype == "object" else kind_of(arr)
                if src is not None:
                    if sk != "O":
                        eq = summary_equal(src, sk, oc.cells[r], ok)
                    elif isinstance(src, (SymStr, str)):
                        got = oc.cells[r]
                        eq = T(False) if got is None else symx.tocell(src).eq(symx.tocell(got)) if not (isinstance(src, str) and isinstance(got, str) and not isinstance(src, SymStr) and not isinstance(got, SymStr)) else T(src == got)
                    else:
                        def bt(x):
                            if isinstance(x, SymBool): return x.e
                            if isinstance(x, bool): return z3.BoolVal(x)
                            if z3.is_expr(x) and z3.is_bool(x): return x
                            return None
                        a, b = bt(src), bt(oc.cells[r])
                        eq = (a == b) if a is not None and b is not None else T(False)
                    cl.append((f"{nm}[{r}]: value unchanged", z3.Or(mask.cells[r], eq)))
        return cl

class Export(Harness):
    """dataiter's side of to_pandas / to_arrow: one list per column, in column order and under its name, None exactly at
    the missing positions and the stored value elsewhere (the foreign constructors are recorders)"""
    prop = "C13"; opname = "df_export"
    def __init__(self, kind, kinds, maxn):
        self.kind = kind; self.kinds = kinds; self.maxn = maxn
        self.name = f"C13.to_{kind}.{'+'.join(kinds)}.n{maxn}"
        self.bounds = {"rows": f"1..{maxn}", "column dtypes": [KIND_DTYPE[k] for k in kinds]}
        self.symbolic = ["all cells (missing values anywhere)"]; self.choice_dims = ["nrow"]
        self.goals = [f"data_frame.py:DataFrame.to_{kind}", "vector.py:Vector.tolist"]
    def build(self, ctx):
        n = choice("n", range(1, self.maxn + 1))
        return {"data": Frame({f"c{j}": mk_col(k, n, f"c{j}") for j, k in enumerate(self.kinds)}), "kind": self.kind}
    def spec(self, inp, out):
        if isinstance(out, Raised): return [(f"does not raise ({out.type}: {out.msg[:80]})", T(False))]
        from .c07 import scalar_kind
        data = inp["data"]; n = len(next(iter(data.cols.values())))
        cl = [("returns what the library constructor returned", T(out["returned_library_object"] is True)),
              ("column names handed over in column order", T(out["names"] == data.names)),
              ("one sequence per column", T(isinstance(out["cols"], list) and len(out["cols"]) == len(data.names))),
              ("no further arguments to the constructors", T(out["extra_args"] == 0))]
        if not (isinstance(out["cols"], list) and len(out["cols"]) == len(data.names)): return cl
        for nm, vals in zip(data.names, out["cols"]):
            col = data.cols[nm]; k = kind_of(col)
            cl.append((f"{nm}: one element per row", T(len(vals) == n)))
            if len(vals) != n: continue
            for r, v in enumerate(vals):
                cl.append((f"{nm}[{r}]: None iff the cell is missing", isna(col.cells[r], k) == T(v is None)))
                if v is not None:
                    oc, ok = scalar_kind(v)
                    if ok == "M": ok = k
                    cl.append((f"{nm}[{r}]: the stored value", z3.Or(isna(col.cells[r], k), summary_equal(col.cells[r], k, oc, ok))))
        cl += [(f"receiver unchanged: {lab}", c) for lab, c in same_frame_clauses(data, out["recv"], "receiver")]
        return cl

class ForeignRoundTrip(Harness):
    """observed only: the real pandas / pyarrow in the loop (their type inference is C code)"""
    prop = "C13"; opname = "df_foreign_roundtrip"; observed_only = True
    def __init__(self, kind, kinds, maxn):
        self.kind = kind; self.kinds = kinds; self.maxn = maxn
        self.name = f"C13.roundtrip_{kind}.{'+'.join(kinds)}.n{maxn}"
        self.bounds = {"rows": f"1..{maxn}", "column dtypes": [KIND_DTYPE[k] for k in kinds], "note": "observed on the real build through witness replay only"}
        self.symbolic = ["cells"]; self.choice_dims = ["nrow"]
        self.goals = []
    def build(self, ctx):
        n = choice("n", range(1, self.maxn + 1))
        return {"data": Frame({f"c{j}": mk_col(k, n, f"c{j}") for j, k in enumerate(self.kinds)}), "kind": self.kind}
    def probes(self, inp):
        # the real pandas / pyarrow are in the loop only on replayed inputs: aim a few at the corners
        pr = []
        for nm, col in inp["data"].cols.items():
            k = kind_of(col); cs = col.cells
            na = [isna(c, k) for c in cs]
            if k in ("f", "T", "D", "us"):
                pr.append((f"{nm}: first row missing, another present", z3.And(na[0], z3.Or(na[1:] + [T(False)]) == T(False), T(len(cs) > 1))))
                pr.append((f"{nm}: all missing", z3.And(na)))
                pr.append((f"{nm}: only the last row missing", z3.And([z3.Not(x) for x in na[:-1]] + [na[-1]])))
            if k == "f":
                pr.append((f"{nm}: infinite value", z3.Or([z3.fpIsInf(c) for c in cs])))
                pr.append((f"{nm}: negative zero", z3.Or([z3.And(z3.fpIsZero(c), z3.fpIsNegative(c)) for c in cs])))
                pr.append((f"{nm}: integral values only", z3.And([z3.And(z3.Not(z3.fpIsNaN(c)), z3.Not(z3.fpIsInf(c)), c == z3.fpRoundToIntegral(z3.RTZ(), c)) for c in cs])))
            if k == "i":
                pr.append((f"{nm}: INT64_MIN", z3.Or([c == symx.INT64_MIN for c in cs])))
                pr.append((f"{nm}: beyond 2**53", z3.Or([c > 2**53 + 1 for c in cs])))
                pr.append((f"{nm}: zeros and ones only", z3.And([z3.Or(c == 0, c == 1) for c in cs])))
            if k == "T":
                pr.append((f"{nm}: a string of 50+ characters", z3.Or([c.tail for c in cs])))
                pr.append((f"{nm}: non-ASCII first character", z3.Or([z3.And(z3.UGE(c.n, 1), z3.UGT(c.ch[0], 0x7F)) for c in cs])))
                pr.append((f"{nm}: digits only", z3.And([z3.And(c.n == 1, c.ch[0] >= 0x30, c.ch[0] <= 0x39, z3.Not(c.tail)) for c in cs])))
            if k == "b":
                pr.append((f"{nm}: all False", z3.And([z3.Not(c) for c in cs])))
        return pr
    def spec(self, inp, out):
        if isinstance(out, Raised): return [(f"does not raise ({out.type}: {out.msg[:80]})", T(False))]
        return same_frame_clauses(inp["data"], out["back"], f"{self.kind} round trip")

def harnesses(tier):
    q = tier == "quick"
    n = 2 if q else 3
    hs = [Convert("lod", ["f", "T"], n), Convert("lod", ["i", "b"], n), Convert("json", ["f", "T"], n), Convert("json", ["i", "b"], n)]
    hs += [Convert("json", ["D", "us"], 2), Convert("lod", ["U", "i"], 2), Convert("json", ["U", "b"], 2)]
    if not q: hs += [Convert("lod", ["D", "us"], n)]
    for kind in ("pandas", "arrow"):
        hs.append(Export(kind, ["T", "f"], n))
        hs.append(Export(kind, ["U", "i"], 2))
        hs.append(Export(kind, ["i", "b"] if q else ["i", "b", "D"], n))
        if not q: hs.append(Export(kind, ["us", "td"], n))
        hs.append(Import(kind, ["T", "f"], n))
        hs.append(Import(kind, ["i", "Ob"], n))
        hs.append(ForeignRoundTrip(kind, ["T", "f"], n))
        hs.append(ForeignRoundTrip(kind, ["i", "b"], 2))
        if not q: hs.append(ForeignRoundTrip(kind, ["D", "us"], 2))
    return hs
