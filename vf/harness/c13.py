"""C13 — conversions to ListOfDicts, JSON, pandas and Arrow are invertible."""
import z3

from .. import symx
from ..run import Harness
from ..symx import choice, SymPyInt, SymStr, SymF64, SymI64, SymBool
from ..tree import Arr, Frame, LoD, Raised
from .common import BV, T, cell_ident, isna, kind_of, mk_col, summary_equal, KIND_DTYPE

def same_frame_clauses(a, b, label, dtype_kinds=("b", "i", "f", "T")):
    """frame b (after the round trip) has the same names/order, values and missing positions as frame a, and the same
    dtype for bool/int/float/str columns with at least one non-missing value"""
    cl = [(f"{label}: same column names in the same order", T(isinstance(b, Frame) and a.names == b.names))]
    if not isinstance(b, Frame) or a.names != b.names: return cl
    for nm in a.names:
        ca, cb = a.cols[nm], b.cols[nm]
        ka = kind_of(ca) if ca.dtype != "object" else "O"; kb = kind_of(cb) if cb.dtype != "object" else "O"
        cl.append((f"{label}: {nm} has the same number of rows", T(len(ca) == len(cb))))
        if len(ca) != len(cb): continue
        if ka in dtype_kinds:
            anyval = z3.Or([z3.Not(isna(c, ka)) for c in ca.cells] or [T(False)])
            cl.append((f"{label}: {nm} keeps its dtype ({ca.dtype} -> {cb.dtype}) when it has a non-missing value", z3.Implies(anyval, T(ca.dtype == cb.dtype))))
        for r in range(len(ca)):
            cl.append((f"{label}: {nm}[{r}] same value / missing position", summary_equal(ca.cells[r], ka, cb.cells[r], kb)))
    return cl

class Convert(Harness):
    prop = "C13"; opname = "df_convert"
    def __init__(self, leg, kinds, maxn):
        self.leg = leg; self.kinds = kinds; self.maxn = maxn
        self.name = f"C13.{leg}.{'+'.join(kinds)}.n{maxn}"
        self.bounds = {"rows": f"1..{maxn}", "column dtypes": [KIND_DTYPE[k] for k in kinds]}
        self.symbolic = ["all cells (missing values anywhere, incl. the first row)"]; self.choice_dims = ["nrow"]
        self.goals = ["data_frame.py:DataFrame.to_list_of_dicts", "vector.py:Vector.tolist"] + (
            ["list_of_dicts.py:ListOfDicts.to_data_frame"] if leg == "lod" else ["data_frame.py:DataFrame.to_json", "data_frame.py:DataFrame.from_json"])
    def build(self, ctx):
        n = choice("n", range(1, self.maxn + 1))
        cols = {f"c{j}": mk_col(k, n, f"c{j}") for j, k in enumerate(self.kinds)}
        if self.leg == "json":
            for c in cols.values():
                if kind_of(c) == "f":
                    for x in c.cells: ctx.assume(z3.Not(z3.fpIsInf(x)), note="JSON leg: finite floats or NaN (JSON has no Infinity)")
        return {"data": Frame(cols), "leg": self.leg}
    def spec(self, inp, out):
        if isinstance(out, Raised): return [(f"does not raise ({out.type}: {out.msg[:80]})", T(False))]
        data = inp["data"]; n = len(next(iter(data.cols.values())))
        mid = out["mid"]
        items = [dict(x) for x in mid.items] if isinstance(mid, LoD) else mid
        cl = [("one record per row", T(len(items) == n))]
        for r, it in enumerate(items[:n]):
            cl.append((f"record {r}: one field per column, in column order", T(list(it) == data.names)))
            if list(it) != data.names: continue
            for nm in data.names:
                col = data.cols[nm]; k = kind_of(col)
                v = it[nm]
                cl.append((f"record {r}: {nm} is null iff the cell is missing", isna(col.cells[r], k) == T(v is None)))
        cl += same_frame_clauses(data, out["back"], "back-conversion", ("b", "i", "f", "T") if self.leg == "lod" else ("b", "i", "f", "T"))
        return cl

def foreign_col(ctx, kind, n, tag):
    """(array handed over by the foreign library, null mask) for a column whose dataiter dtype would be `kind`"""
    if kind == "T":
        cells = []; mask = []
        for i in range(n):
            if choice(f"{tag}{i}_null", [False, True]): cells.append(None); mask.append(T(True))
            else:
                c = symx.sym_str(f"{tag}{i}"); ctx.assume(z3.Not(c.is_empty()), note="foreign string cells: non-empty strings or null")
                cells.append(SymStr(c)); mask.append(T(False))
        return Arr("object", cells), Arr("bool", mask)
    if kind == "Ob":
        cells = []; mask = []
        for i in range(n):
            if choice(f"{tag}{i}_null", [False, True]): cells.append(None); mask.append(T(True))
            else: cells.append(symx.SymPyBool(symx.sym_bool(f"{tag}{i}"))); mask.append(T(False))
        return Arr("object", cells), Arr("bool", mask)
    col = mk_col(kind, n, tag)
    return col, Arr("bool", [isna(c, kind) for c in col.cells])

class Import(Harness):
    prop = "C13"; opname = "df_import"
    def __init__(self, kind, kinds, maxn):
        self.kind = kind; self.kinds = kinds; self.maxn = maxn
        self.name = f"C13.from_{kind}.{'+'.join(kinds)}.n{maxn}"
        self.bounds = {"rows": f"1..{maxn}", "foreign columns": kinds}
        self.symbolic = ["cells"]; self.choice_dims = ["nrow", "null positions of object columns"]
        self.goals = [f"data_frame.py:DataFrame.from_{kind}"]
    def build(self, ctx):
        n = choice("n", range(1, self.maxn + 1))
        cols = []
        for j, k in enumerate(self.kinds):
            arr, mask = foreign_col(ctx, k, n, f"c{j}")
            cols.append([f"c{j}", arr, mask])
        return {"cols": cols, "kind": self.kind}
    def spec(self, inp, out):
        if isinstance(out, Raised): return [(f"does not raise ({out.type}: {out.msg[:80]})", T(False))]
        res = out["out"]
        names = [c[0] for c in inp["cols"]]
        cl = [("same column names in the same order", T(isinstance(res, Frame) and res.names == names))]
        if not isinstance(res, Frame) or res.names != names: return cl
        for (nm, arr, mask), k in zip(inp["cols"], self.kinds):
            oc = res.cols[nm]; ok = kind_of(oc) if oc.dtype != "object" else "O"
            n = len(arr)
            cl.append((f"{nm}: same number of rows", T(len(oc) == n)))
            if len(oc) != n: continue
            anyval = z3.Or([z3.Not(m) for m in mask.cells] or [T(False)])
            want = {"T": "string", "Ob": None}.get(k, arr.dtype)
            if want:
                cl.append((f"{nm}: dtype {want} when it has a non-missing value (got {oc.dtype})", z3.Implies(anyval, T(oc.dtype == want))))
            for r in range(n):
                miss = T(oc.cells[r] is None) if ok == "O" else isna(oc.cells[r], ok)
                cl.append((f"{nm}[{r}]: missing exactly where the foreign column is null", miss == mask.cells[r]))
                src = arr.cells[r]
                sk = "O" if arr.dtype == "object" else kind_of(arr)
                if src is not None:
                    if sk != "O":
                        eq = summary_equal(src, sk, oc.cells[r], ok)
                    elif isinstance(src, (SymStr, str)):
                        got = oc.cells[r]
                        eq = T(False) if got is None else symx.tocell(src).eq(symx.tocell(got)) if not (isinstance(src, str) and isinstance(got, str) and not isinstance(src, SymStr) and not isinstance(got, SymStr)) else T(src == got)
                    else:
                        def bt(x):
                            if isinstance(x, SymBool): return x.e
                            if isinstance(x, bool): return z3.BoolVal(x)
                            if z3.is_expr(x) and z3.is_bool(x): return x
                            return None
                        a, b = bt(src), bt(oc.cells[r])
                        eq = (a == b) if a is not None and b is not None else T(False)
                    cl.append((f"{nm}[{r}]: value unchanged", z3.Or(mask.cells[r], eq)))
        return cl

class ForeignRoundTrip(Harness):
    """observed only: the real pandas / pyarrow in the loop (their type inference is C code)"""
    prop = "C13"; opname = "df_foreign_roundtrip"; observed_only = True
    def __init__(self, kind, kinds, maxn):
        self.kind = kind; self.kinds = kinds; self.maxn = maxn
        self.name = f"C13.roundtrip_{kind}.{'+'.join(kinds)}.n{maxn}"
        self.bounds = {"rows": f"1..{maxn}", "column dtypes": [KIND_DTYPE[k] for k in kinds], "note": "observed on the real build through witness replay only"}
        self.symbolic = ["cells"]; self.choice_dims = ["nrow"]
        self.goals = []
    def build(self, ctx):
        n = choice("n", range(1, self.maxn + 1))
        return {"data": Frame({f"c{j}": mk_col(k, n, f"c{j}") for j, k in enumerate(self.kinds)}), "kind": self.kind}
    def spec(self, inp, out):
        if isinstance(out, Raised): return [(f"does not raise ({out.type}: {out.msg[:80]})", T(False))]
        return same_frame_clauses(inp["data"], out["back"], f"{self.kind} round trip")

def harnesses(tier):
    q = tier == "quick"
    n = 2 if q else 3
    hs = [Convert("lod", ["f", "T"], n), Convert("lod", ["i", "b"], n), Convert("json", ["f", "T"], n), Convert("json", ["i", "b"], n)]
    if not q: hs += [Convert("lod", ["D", "us"], n)]
    for kind in ("pandas", "arrow"):
        hs.append(Import(kind, ["T", "f"], n))
        hs.append(Import(kind, ["i", "Ob"], n))
        hs.append(ForeignRoundTrip(kind, ["T", "f"], n))
        hs.append(ForeignRoundTrip(kind, ["i", "b"], 2))
    return hs
