"""C11 — Vector sort, rank and unique are total and mutually consistent."""
import itertools

import z3

from .. import symx
from ..run import Harness
from ..symx import choice, SymPyInt
from ..tree import Arr, Raised
from .common import (BV, T, cell_ident, isna, kind_of, mk_col, same_key, val_lt, KIND_DTYPE)

def obj_small_col(n, tag):
    cells = []
    for i in range(n):
        if choice(f"{tag}{i}_none", [False, True]): cells.append(None)
        else: cells.append(SymPyInt(symx.sym_int_range(f"{tag}{i}", 8, 11)))
    return Arr("object", cells, "Vector")

class VecOp(Harness):
    prop = "C11"
    opname = "vec_op"
    def __init__(self, method, kind, maxn):
        self.method = method; self.kind = kind; self.maxn = maxn
        self.name = f"C11.{method}.{kind}.n{maxn}"
        self.bounds = {"elements": f"0..{maxn}", "dtype": KIND_DTYPE[kind]}
        if kind == "O": self.bounds["object elements"] = "Python ints in 8..11 and None (sort compares str(x): only permutation and missing-last are asserted)"
        self.symbolic = ["all elements"]
        self.choice_dims = ["length", "direction / rank method"]
        self.goals = [f"vector.py:Vector.{method}"]
    def build(self, ctx):
        n = choice("n", range(self.maxn + 1))
        v = obj_small_col(n, "x") if self.kind == "O" else mk_col(self.kind, n, "x", cls="Vector")
        inp = {"v": v, "method": self.method}
        if self.method == "sort": inp["dir"] = choice("dir", [1, -1])
        if self.method == "rank": inp["rank_method"] = choice("method", ["min", "max", "ordinal"])
        return inp
    def regions(self, inp):
        return {}
    def spec(self, inp, out):
        if isinstance(out, Raised):
            return [(f"does not raise ({out.type}: {out.msg[:60]})", T(False))]
        v = inp["v"]; res = out["out"]; k = self.kind
        X = v.cells; n = len(X)
        cl = [("result is a Vector", T(isinstance(res, Arr) and res.cls == "Vector"))]
        if not isinstance(res, Arr): return cl
        Y = res.cells
        na = [isna(c, k) for c in X]
        m = self.method
        if m == "sort":
            cl.append(("dtype unchanged", T(res.dtype == v.dtype)))
            cl.append(("same number of elements", T(len(Y) == n)))
            if res.dtype != v.dtype or len(Y) != n: return cl
            perms = [z3.And([cell_ident(Y[j], X[p[j]], k) for j in range(n)] or [T(True)]) for p in itertools.permutations(range(n))]
            cl.append(("output is a permutation of the elements", z3.Or(perms)))
            nay = [isna(c, k) for c in Y]
            d = inp["dir"]
            for p, q in itertools.combinations(range(n), 2):
                cl.append((f"missing values last (positions {p},{q})", z3.Not(z3.And(nay[p], z3.Not(nay[q])))))
                if k != "O":
                    wrong = val_lt(Y[q], Y[p], k) if d > 0 else val_lt(Y[p], Y[q], k)
                    cl.append((f"positions {p},{q} in requested order", z3.Implies(z3.And(z3.Not(nay[p]), z3.Not(nay[q])), z3.Not(wrong))))
        elif m == "rank":
            cl.append(("ranks are int64", T(res.dtype == "int64")))
            cl.append(("one rank per element", T(len(Y) == n)))
            if res.dtype != "int64" or len(Y) != n: return cl
            def before(j, i): return z3.Or(z3.And(z3.Not(na[j]), na[i]), z3.And(z3.Not(na[j]), z3.Not(na[i]), val_lt(X[j], X[i], k)))
            def tie(j, i): return same_key(X[j], X[i], k)
            rm = inp["rank_method"]
            for i in range(n):
                t = BV(0)
                for j in range(n):
                    if rm == "min": c = before(j, i)
                    elif rm == "max": c = z3.Or(before(j, i), tie(j, i))
                    else: c = z3.Or(before(j, i), z3.And(tie(j, i), T(j < i)))
                    t = t + z3.If(c, BV(1), BV(0))
                want = t if rm == "max" else t + BV(1)
                cl.append((f"rank of element {i} ({rm})", BV(Y[i]) == want))
        elif m == "unique":
            cl.append(("dtype unchanged", T(res.dtype == v.dtype)))
            if res.dtype != v.dtype: return cl
            firsts = [z3.Not(z3.Or([same_key(X[i], X[j], k) for j in range(i)] or [T(False)])) for i in range(n)]
            cnt = BV(0)
            for f in firsts: cnt = cnt + z3.If(f, BV(1), BV(0))
            cl.append(("one output element per distinct value", cnt == BV(len(Y))))
            # the r-th output element is the r-th first occurrence
            for r in range(len(Y)):
                for i in range(n):
                    idx = BV(0)
                    for j in range(i): idx = idx + z3.If(firsts[j], BV(1), BV(0))
                    cl.append((f"output element {r} is the first occurrence in input order",
                               z3.Implies(z3.And(firsts[i], idx == BV(r)), cell_ident(Y[r], X[i], k))))
        return cl

class VecOpTwice(VecOp):
    """history: call, overwrite every element in place, call again - the second result must only depend on the new contents"""
    opname = "vec_op_twice"
    def __init__(self, method, kind, maxn):
        VecOp.__init__(self, method, kind, maxn)
        self.name = f"C11.{method}_twice.{kind}.n{maxn}"
        self.bounds = dict(self.bounds, history="method call, in-place assignment of new elements, same method call again")
    def build(self, ctx):
        inp = VecOp.build(self, ctx)
        n = len(inp["v"])
        from .common import sym_cell, scalar_of
        self_new = [sym_cell(self.kind, f"new{i}") for i in range(n)]
        inp["old"] = inp["v"]
        inp["new"] = [scalar_of(c, self.kind) for c in self_new]
        return inp
    def spec(self, inp, out):
        from .common import as_cell
        cells = [as_cell(x, self.kind) for x in inp["new"]]
        inp2 = dict(inp); inp2["v"] = Arr(inp["v"].dtype, cells, "Vector")
        return VecOp.spec(self, inp2, out)

def harnesses(tier):
    hs = []
    for m in ("sort", "rank", "unique"):
        hs.append(VecOpTwice(m, "T", 2))
    hs.append(VecOpTwice("sort", "f", 2))
    if tier == "quick":
        for k in ["f", "i", "T", "b", "D", "td"]:
            for m in ("sort", "rank", "unique"):
                hs.append(VecOp(m, k, 3))
        for m in ("sort", "rank", "unique"):
            hs.append(VecOp(m, "O", 2))
        hs.append(VecOp("sort", "ns", 2)); hs.append(VecOp("unique", "ns", 2))
    else:
        for k in ["f", "i", "T", "b", "D", "us", "U", "td", "ns"]:
            for m in ("sort", "rank", "unique"):
                hs.append(VecOp(m, k, 4))
        for m in ("sort", "rank", "unique"):
            hs.append(VecOp(m, "O", 3))
        # a deeper bound for the argsort / scan code on the two cheapest element types
        for k, m in (("i", "sort"), ("f", "sort"), ("i", "unique"), ("f", "unique"), ("i", "rank")):
            hs.append(VecOp(m, k, 5))
    return hs
