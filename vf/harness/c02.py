"""C02 — row subsetting returns exactly the selected whole rows, in order."""
import z3

from .. import symx
from ..run import Harness, Prepared
from ..symx import choice, INT64_MIN, SymI64
from ..tree import Arr, Frame, Raised
from .common import (as_cell, BV, T, cell_ident, const_ints, frame_rows_clauses, isna, kind_of, mk_col, np_eq, rid_col,
                     same_key, scalar_of, sym_cell, KIND_DTYPE)

class Subset(Harness):
    prop = "C02"
    opname = "df_subset"
    def __init__(self, method, kind, maxn, variant=None, nkeys=1):
        self.method = method; self.kind = kind; self.maxn = maxn; self.variant = variant; self.nkeys = nkeys
        self.name = f"C02.{method}{'.' + variant if variant else ''}.{kind}{'x%d' % nkeys if nkeys > 1 else ''}.n{maxn}"
        self.bounds = {"rows": f"0..{maxn}", "key dtype": KIND_DTYPE[kind], "key columns": nkeys, "payload": "1 float64 column + row id"}
        self.symbolic = ["all cells of key and payload columns"]
        self.choice_dims = ["nrow"]
        self.goals = {"filter": ["data_frame.py:DataFrame.filter"], "filter_out": ["data_frame.py:DataFrame.filter_out"],
                      "slice": ["data_frame.py:DataFrame.slice"], "slice_off": ["data_frame.py:DataFrame.slice_off"],
                      "head": ["data_frame.py:DataFrame.head"], "tail": ["data_frame.py:DataFrame.tail"],
                      "drop_na": ["data_frame.py:DataFrame.drop_na", "vector.py:Vector.is_na"],
                      "unique": ["data_frame.py:DataFrame.unique"], "sample": ["data_frame.py:DataFrame.sample"]}[method]

    def build(self, ctx):
        n = choice("nrow", range(self.maxn + 1))
        cols = {}
        keys = ["x", "z"][:self.nkeys]
        for k in keys:
            cols[k] = mk_col(self.kind, n, k)
        cols["y"] = mk_col("f", n, "y")
        cols["rid"] = rid_col(n)
        inp = {"data": Frame(cols), "method": self.method}
        m = self.method
        if m in ("filter", "filter_out"):
            if self.variant == "mask":
                inp["cond"] = {"kind": "mask", "mask": Arr("bool", [symx.sym_bool(f"m{i}") for i in range(n)])}
                self.symbolic_note = "boolean mask"
            elif self.variant == "objmask":
                # a boolean column that went through a join or rbind is an object array of Python bools
                inp["cond"] = {"kind": "mask", "mask": Arr("object", [symx.SymPyBool(symx.sym_bool(f"m{i}")) for i in range(n)])}
            elif self.variant == "kwfloat":
                # colname=value with a Python float against an int64 column: NumPy compares in float64, as the mask x == value does
                inp["cond"] = {"kind": "kw", "col": "x", "value": symx.SymPyFloat(symx.sym_f64("v"))}
            else:
                if self.kind == "O":
                    inp["cond"] = {"kind": self.variant, "col": "x", "value": symx.SymPyInt(symx.sym_i64("v"))}
                else:
                    v = sym_cell(self.kind, "v")
                    inp["cond"] = {"kind": self.variant, "col": "x", "value": scalar_of(v, self.kind)}
                if self.variant == "kw2":
                    # two colname=value pairs: rows matching both
                    inp["cond"]["col2"] = "y"; inp["cond"]["value2"] = scalar_of(sym_cell("f", "w"), "f")
        elif m in ("slice", "slice_off"):
            if choice("rows_given", [True, False]):
                k = choice("nidx", range(0, self.maxn + 1) if n > 0 else [0])
                rows = [symx.sym_int_range(f"r{j}", -n, n - 1) for j in range(k)]
                ctx.assumptions.append("slice/slice_off positions within -nrow..nrow-1 (Python's negative positions included; out-of-range positions outside the claim)")
                inp["rows"] = Arr("int64", rows)
                inp["rows_form"] = choice("rows_form", ["array", "list", "iter"])
            else:
                inp["rows"] = None
            ncol = len(cols)
            # column positions: the row-id column (last) is always kept so that rows stay identifiable
            inp["cols"] = choice("cols", [None, [ncol - 1, 0], [0, ncol - 1]] if m == "slice" else [None, [0], [1, 0]])
        elif m in ("head", "tail"):
            if choice("n_given", [True, False]):
                inp["n"] = SymI64(symx.sym_int_range("n", 0, self.maxn + 1))
                ctx.assumptions.append("head/tail n >= 0")
            else:
                inp["n"] = None
        elif m == "drop_na":
            inp["cols"] = choice("na_cols", [["x"], ["y"], ["x", "y"], []])
        elif m == "unique":
            inp["cols"] = choice("by", [keys, []] if self.nkeys == 1 else [keys, keys[:1], keys[::-1]])
        elif m == "sample":
            if choice("n_given", [True, False]):
                k = choice("k", range(0, self.maxn + 2))
            else:
                k = None
            kk = min(n, 10 if k is None else k)
            draw = [symx.sym_int_range(f"d{j}", 0, n - 1) for j in range(kk)]
            for i in range(kk):
                for j in range(i):
                    ctx.assume(draw[i] != draw[j])
            ctx.assumptions.append("np.random.choice(n, k, replace=False) returns arbitrary k distinct indices in arbitrary order")
            inp["n"] = k
            inp["draw"] = Arr("int64", draw)
        return inp

    def probes(self, inp):
        # rows are told apart through tuples / sets in the code under test, whose hashing is not modelled (every symbolic value
        # hashes to 0, which is sound for dict / set semantics only): observe values whose CPython hashes coincide
        if self.method != "unique" or self.kind not in ("i", "f"): return []
        X = inp["data"].cols["x"].cells
        if len(X) < 2: return []
        def is_(c, v): return (c == BV(v)) if self.kind == "i" else z3.fpEQ(c, symx.fpval(float(v)))
        pairs = [(i, j) for i in range(len(X)) for j in range(len(X)) if i != j]
        return [("keys -1 and -2 (equal CPython hashes)", z3.Or([z3.And(is_(X[i], -1), is_(X[j], -2)) for i, j in pairs])),
                ("keys 0 and 2**61 - 1 (equal CPython hashes)", z3.Or([z3.And(is_(X[i], 0), is_(X[j], 2**61 - 1)) for i, j in pairs]))]
    def regions(self, inp):
        if self.method != "unique": return {}
        regs = {}
        data = inp["data"]
        by = inp["cols"] or data.names
        for name in by:
            col = data.cols[name]
            if kind_of(col) == "f" and len(col) >= 1:
                # the NaN sentinel nanmin(x)-1 equals nanmin(x) itself
                cs = col.cells
                anynan = z3.Or([z3.fpIsNaN(c) for c in cs])
                mn = cs[0]
                for c in cs[1:]:
                    mn = z3.If(z3.fpIsNaN(mn), c, z3.If(z3.fpIsNaN(c), mn, z3.If(z3.fpLT(c, mn), c, mn)))
                flag = z3.fpSub(symx.RNE, mn, symx.fpval(1.0))
                collide = z3.And(anynan, z3.Not(z3.fpIsNaN(mn)), z3.fpEQ(flag, mn))
                regs["unique-nan-sentinel-collides"] = z3.Or(regs.get("unique-nan-sentinel-collides", T(False)), collide)
        return regs

    def spec(self, inp, out):
        if isinstance(out, Raised):
            return [(f"does not raise ({out.type}: {out.msg[:60]})", T(False))]
        data = inp["data"]; res = out["out"]
        n = len(data.cols["rid"])
        cl = []
        cl.append(("result is a DataFrame", T(isinstance(res, Frame) and res.cls == "DataFrame")))
        want = data.names
        if inp.get("cols") is not None:
            want = [data.names[c] for c in inp["cols"]] if self.method == "slice" else [x for i, x in enumerate(data.names) if i not in inp["cols"]]
        cl.append((f"columns are {want}", T(res.names == want)))
        if res.names != want: return cl
        rids = const_ints(res.cols["rid"])
        cl.append(("row ids valid", T(all(0 <= r < n for r in rids))))
        if not all(0 <= r < n for r in rids): return cl
        cl += frame_rows_clauses(data, res, rids, cols=want)
        m = self.method
        inc = all(a < b for a, b in zip(rids, rids[1:]))
        X = data.cols["x"].cells; k = self.kind
        def keep_iff(pred):
            cl.append(("kept rows in original order, each once", T(inc)))
            for i in range(n):
                cl.append((f"row {i} kept iff selected", pred(i) == T(i in rids)))
        if m in ("filter", "filter_out"):
            c = inp["cond"]
            if c["kind"] == "mask":
                def sel(i):
                    m = c["mask"].cells[i]
                    return m.e if isinstance(m, symx.SymBool) else (z3.BoolVal(m) if isinstance(m, bool) else m)
            elif self.variant == "kwfloat":
                vf = c["value"].e
                sel = lambda i: z3.fpEQ(z3.fpSignedToFP(z3.RNE(), X[i], z3.Float64()), vf)
            else:
                v = c["value"]
                vc = as_cell(v, k) if k != "O" else (v if not isinstance(v, int) or isinstance(v, symx.SymI64) else symx.SymPyInt(v))
                sel = lambda i: np_eq(X[i], vc, k)
                if c["kind"] == "kw2":
                    wc = as_cell(c["value2"], "f"); Y = data.cols["y"].cells
                    sel = lambda i: z3.And(np_eq(X[i], vc, k), np_eq(Y[i], wc, "f"))
            keep_iff((lambda i: sel(i)) if m == "filter" else (lambda i: z3.Not(sel(i))))
        elif m == "slice" and inp["rows"] is None:
            cl.append(("all rows kept in order", T(rids == list(range(n)))))
        elif m == "slice_off" and inp["rows"] is None:
            cl.append(("all rows kept in order", T(rids == list(range(n)))))
        elif m == "slice":
            rows = inp["rows"].cells
            cl.append(("one output row per requested position", T(len(rids) == len(rows))))
            if len(rids) == len(rows):
                for j, r in enumerate(rids):
                    cl.append((f"output row {j} is the requested position", z3.Or(rows[j] == BV(r), rows[j] == BV(r - n))))
        elif m == "slice_off":
            rows = inp["rows"].cells
            keep_iff(lambda i: z3.And([z3.And(r != BV(i), r != BV(i - n)) for r in rows]) if rows else T(True))
        elif m in ("head", "tail"):
            nn = inp["n"]
            want = z3.If(BV(nn) < n, BV(nn), BV(n)) if nn is not None else BV(min(n, 10))
            cl.append(("row count is min(n, nrow)", want == BV(len(rids))))
            exp = list(range(len(rids))) if m == "head" else list(range(n - len(rids), n))
            cl.append(("rows are the first/last ones in order", T(rids == exp)))
        elif m == "drop_na":
            def has_na(i):
                return z3.Or([isna(data.cols[cn].cells[i], kind_of(data.cols[cn])) for cn in inp["cols"]] or [T(False)])
            keep_iff(lambda i: z3.Not(has_na(i)))
        elif m == "sample":
            kk = min(n, 10 if inp["n"] is None else inp["n"])
            cl.append(("sample size is min(n, nrow)", T(len(rids) == kk)))
            cl.append(("sampled rows distinct and in original order", T(inc)))
        elif m == "unique":
            by = inp["cols"] or data.names
            def dup_of_earlier(i):
                return z3.Or([z3.And([same_key(data.cols[cn].cells[i], data.cols[cn].cells[j], kind_of(data.cols[cn]))
                                      for cn in by]) for j in range(i)] or [T(False)])
            keep_iff(lambda i: z3.Not(dup_of_earlier(i)))
        return cl

def harnesses(tier):
    hs = []
    quick = tier == "quick"
    N = 3 if quick else 4
    kinds = ["f", "i", "T", "b", "td"] if quick else ["f", "i", "T", "b", "D", "us", "U", "O", "td", "ns"]
    for k in kinds:
        hs.append(Subset("unique", k, N))
        hs.append(Subset("drop_na", k, N))
        for variant in ("kw", "lambda", "expr"):
            if quick and variant != "kw" and k not in ("f", "T"): continue
            hs.append(Subset("filter", k, N, variant))
        hs.append(Subset("filter_out", k, N, "kw"))
        if not quick or k in ("f", "T"):
            hs.append(Subset("filter", k, N, "kw2"))
            hs.append(Subset("filter_out", k, N, "kw2"))
    hs.append(Prepared(Subset("unique", "U" if not quick else "T", 2))); hs.append(Prepared(Subset("drop_na", "T", 2)))
    hs.append(Subset("filter", "i", 2, "kwfloat")); hs.append(Subset("filter_out", "i", 2, "kwfloat"))
    hs.append(Subset("filter", "f", N, "mask"))
    hs.append(Subset("filter_out", "f", N, "mask"))
    hs.append(Subset("filter", "f", N, "objmask")); hs.append(Subset("filter_out", "f", N, "objmask"))
    for m in ("slice", "slice_off", "head", "tail", "sample"):
        hs.append(Subset(m, "f", N))
        if not quick:
            hs.append(Subset(m, "T", N))
    if not quick:
        for k in ("f", "T", "i"):
            hs.append(Subset("unique", k, 3, nkeys=2))
    return hs
