"""C16 — ListOfDicts joins and aggregation follow first-match / partition rules."""
import itertools

import z3

from .. import symx
from ..run import Harness
from ..symx import choice, SymPyInt
from ..tree import LoD, Raised
from .common import BV, T
from .c15 import v_ident, py_eq, same_item, vE

def mk_side(ctx, n, tag, idkey, keynames, payload, bare=False):
    """bare: items may consist of their keys only (no id tag, no payload) - then they are identified by position"""
    items = []
    for i in range(n):
        if bare and choice(f"{tag}{i}_bare", [False, True]):
            items.append([(k, None if choice(f"{tag}{i}{k}_none", [False, True]) else SymPyInt(symx.sym_i64(f"{tag}{i}{k}"))) for k in keynames])
            continue
        it = [(idkey, i)]
        for k in keynames:
            it.append((k, None if choice(f"{tag}{i}{k}_none", [False, True]) else SymPyInt(symx.sym_i64(f"{tag}{i}{k}"))))
        for p in payload:
            it.append((p, SymPyInt(symx.sym_i64(f"{tag}{i}{p}"))))
        items.append(it)
    return items

def same_entries(a, b, label):
    """dict a (result) has the entries of dict b (expected); the order of keys is not part of the statement"""
    cl = [(f"{label}: same set of keys", T(set(a) == set(b)))]
    if set(a) == set(b):
        for k in b:
            cl.append((f"{label}: value of {k!r}", v_ident(a[k], b[k]) if k not in ("ida", "idb") else T(a[k] == b[k])))
    return cl

class LodJoin(Harness):
    prop = "C16"; opname = "lod_join"
    def __init__(self, kind, nkeys, na, nb, renamed=False):
        self.kind = kind; self.nkeys = nkeys; self.na = na; self.nb = nb; self.renamed = renamed
        self.name = f"C16.{kind}.k{nkeys}{'.renamed' if renamed else ''}.{na}x{nb}"
        self.bounds = {"left items": f"0..{na}", "right items": f"0..{nb}", "key columns": nkeys, "renamed keys": (renamed and "pairs written as tuples and as lists"),
                       "values": "int64-range ints or None keys; a payload key 'p' present on both sides, 'pa'/'pb' on one"}
        self.symbolic = ["key and payload values"]; self.choice_dims = ["lengths", "None pattern of keys"]
        self.goals = [f"list_of_dicts.py:ListOfDicts.{kind}"]
    def build(self, ctx):
        na = choice("na", range(self.na + 1)); nb = choice("nb", range(self.nb + 1))
        ka = ["k%d" % j for j in range(self.nkeys)]
        kb = ["r%d" % j for j in range(self.nkeys)] if self.renamed else ka
        A = mk_side(ctx, na, "a", "ida", ka, ["pa", "p"])
        B = mk_side(ctx, nb, "b", "idb", kb, ["pb", "p"], bare=self.kind in ("left_join", "inner_join", "semi_join", "anti_join"))
        by = [[x, y] for x, y in zip(ka, kb)] if self.renamed else list(ka)
        inp = {"a": LoD(A), "b": LoD(B), "kind": self.kind, "by": by}
        if self.renamed: inp["pair_form"] = choice("pair_form", ["tuple", "list"])   # both spellings of a key pair are accepted
        return inp
    def spec(self, inp, out):
        if isinstance(out, Raised):
            return [(f"does not raise ({out.type}: {out.msg[:60]})", T(False))]
        A = [dict(x) for x in inp["a"].items]; B = [dict(x) for x in inp["b"].items]
        by1 = [x if isinstance(x, str) else x[0] for x in inp["by"]]
        by2 = [x if isinstance(x, str) else x[1] for x in inp["by"]]
        def match(i, j): return z3.And([py_eq(A[i][k1], B[j][k2]) for k1, k2 in zip(by1, by2)])
        def first(i, j): return z3.And(match(i, j), *[z3.Not(match(i, q)) for q in range(j)])
        def nomatch(i): return z3.And([z3.Not(match(i, j)) for j in range(len(B))] or [T(True)])
        res = out["out"]; kind = self.kind
        cl = [("result is a ListOfDicts", T(isinstance(res, LoD)))]
        if not isinstance(res, LoD): return cl
        R = [dict(x) for x in res.items]
        def merged_ok(r, i, label):
            """r is left item i with the first matching right item's non-key entries merged in (or untouched)"""
            a = A[i]
            for j in range(len(B)):
                exp = dict(a); exp.update({k: v for k, v in B[j].items() if k not in by2})
                ok = z3.And([c for _, c in same_item(r, exp, "")])
                cl.append((f"{label}: merged with the first matching right item", z3.Implies(first(i, j), ok)))
            ok0 = z3.And([c for _, c in same_item(r, a, "")])
            cl.append((f"{label}: nothing added when nothing matches", z3.Implies(nomatch(i), ok0)))
        if kind in ("left_join", "inner_join", "semi_join", "anti_join"):
            ra = [r.get("ida") for r in R]
            cl.append(("left items in original order, each at most once", T(all(x is not None for x in ra) and all(x < y for x, y in zip(ra, ra[1:])))))
            if not (all(x is not None for x in ra) and all(x < y for x, y in zip(ra, ra[1:]))): return cl
            for i in range(len(A)):
                if kind == "left_join": cl.append((f"left item {i} kept", T(i in ra)))
                elif kind == "anti_join": cl.append((f"left item {i} kept iff unmatched", nomatch(i) == T(i in ra)))
                else: cl.append((f"left item {i} kept iff matched", z3.Not(nomatch(i)) == T(i in ra)))
            for r, i in zip(R, ra):
                if kind in ("left_join", "inner_join"): merged_ok(r, i, f"item {i}")
                else: cl.extend(same_item(r, A[i], f"item {i} (unmerged)"))
        else:
            for i in range(len(A)):
                cl.append((f"left item {i} appears in the result", T(any(r.get("ida") == i for r in R))))
            for j in range(len(B)):
                cl.append((f"right item {j} appears in the result", T(any(r.get("idb") == j for r in R))))
            for n_, r in enumerate(R):
                i, j = r.get("ida"), r.get("idb")
                cl.append((f"result item {n_} stems from a left or right item", T(i is not None or j is not None)))
                cl.append((f"result item {n_} has no helper keys", T("_aid_" not in r and "_bid_" not in r)))
                if i is not None and j is not None:
                    cl.append((f"result item {n_} never merges items with unequal keys", match(i, j)))
                if i is None and j is not None and isinstance(j, int) and 0 <= j < len(B):
                    # a right item without a partner: the item itself, its key values under the join's (left) key names
                    exp = {k: v for k, v in B[j].items() if k not in by2}
                    exp.update({k1: B[j][k2] for k1, k2 in zip(by1, by2) if k2 in B[j]})
                    cl.extend(same_entries(r, exp, f"result item {n_} (right item {j} alone, keyed by the left key names)"))
                if j is None and i is not None and isinstance(i, int) and 0 <= i < len(A):
                    cl.extend(same_entries(r, A[i], f"result item {n_} (left item {i} alone)"))
        # the right-hand argument is never modified
        cl.append(("right-hand list unchanged", T(len(out["b_after"]) == len(B))))
        for x, y in zip(out["b_after"], B):
            cl.extend(same_item(x, y, "right item"))
        return cl

class LodAggregate(Harness):
    prop = "C16"; opname = "lod_aggregate"
    goals = ["list_of_dicts.py:ListOfDicts.aggregate"]
    def __init__(self, nkeys, maxn, derive=None):
        self.nkeys = nkeys; self.maxn = maxn; self.derive = derive
        self.name = f"C16.aggregate.k{nkeys}{'.then_' + derive if derive else ''}.n{maxn}"
        self.bounds = {"items": f"0..{maxn}", "group keys": nkeys,
                       "history": f"group_by, aggregate, derive a list by {derive}, aggregate that" if derive else "group_by, aggregate"}
        self.symbolic = ["group-key values"]; self.choice_dims = ["length", "None pattern"]
    def build(self, ctx):
        n = choice("n", range(self.maxn + 1))
        keys = ["g%d" % j for j in range(self.nkeys)]
        inp = {"data": LoD(mk_side(ctx, n, "x", "id", keys, ["v"])), "by": keys}
        if self.derive: inp["derive"] = self.derive
        return inp
    def spec(self, inp, out):
        if isinstance(out, Raised):
            return [(f"does not raise ({out.type}: {out.msg[:60]})", T(False))]
        X = [dict(x) for x in inp["data"].items]; by = inp["by"]; n = len(X)
        # the list that is aggregated last: ids in its order
        D = {None: list(range(n)), "slice": list(range(1, n)), "reverse": list(range(n - 1, -1, -1))}[inp.get("derive")]
        pos = {i: p for p, i in enumerate(D)}
        res = out["out"]
        cl = [("result is a ListOfDicts", T(isinstance(res, LoD)))]
        if not isinstance(res, LoD): return cl
        R = [dict(x) for x in res.items]
        def same(a, b): return z3.And([py_eq(a[k], b[k]) for k in by])
        groups = []
        for r in R:
            ids = r.get("ids")
            cl.append(("summary item has the group keys and the summaries", T(list(r) == by + ["n", "ids"])))
            if list(r) != by + ["n", "ids"]: return cl
            ids = [int(str(z3.simplify(BV(x)))) if not isinstance(x, int) else x for x in ids]
            groups.append(ids)
            cl.append(("summary computed over the group's items in the list's order", T(all(i in pos for i in ids) and [pos[i] for i in ids if i in pos] == sorted(pos[i] for i in ids if i in pos) and len(ids) >= 1)))
            if not all(i in pos for i in ids): return cl
            cl.append(("n is the group's size", BV(r["n"]) == BV(len(ids))))
            for i in ids:
                cl.append((f"item {i} belongs to the group of its summary item", same(X[i], r)))
        flat = sorted(i for g in groups for i in g)
        cl.append(("groups are disjoint and cover all items", T(flat == sorted(D))))
        for a, b in itertools.combinations(range(len(R)), 2):
            cl.append((f"summary items {a},{b} have distinct keys", z3.Not(same(R[a], R[b]))))
            # ordered by the keys with None last
            lt = T(False)
            for k in reversed(by):
                x, y = R[a][k], R[b][k]
                if x is None or y is None:
                    klt = T(x is not None and y is None); keq = T(x is None and y is None)
                else:
                    klt = vE(x) < vE(y); keq = vE(x) == vE(y)
                lt = z3.Or(klt, z3.And(keq, lt))
            cl.append((f"summary items {a},{b} ordered by the keys with None last", lt))
        return cl

def harnesses(tier):
    q = tier == "quick"
    hs = []
    for kind in ("left_join", "inner_join", "semi_join", "anti_join", "full_join"):
        hs.append(LodJoin(kind, 1, 2, 2 if q else 3))
        hs.append(LodJoin(kind, 1, 2, 2, renamed=True))
        if not q:
            hs.append(LodJoin(kind, 2, 2, 2))
            hs.append(LodJoin(kind, 1, 3, 3))
    hs.append(LodAggregate(1, 3 if q else 4))
    hs.append(LodAggregate(2, 2 if q else 3))
    hs.append(LodAggregate(1, 2 if q else 3, derive="slice")); hs.append(LodAggregate(1, 2 if q else 3, derive="reverse"))
    return hs
