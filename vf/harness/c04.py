"""C04 — grouping partitions the rows; one summary row per distinct key."""
import itertools

import z3

from .. import symx
from ..run import Harness, Prepared
from ..symx import choice, INT64_MIN
from ..tree import Arr, Frame, Raised
from .common import (BV, FP, T, summary_equal, cell_ident, const_int, const_ints, isna, kind_of, mk_col, rid_col, same_key, val_lt,
                     KIND_DTYPE)
from .c02 import Subset

def tuple_same(cols, i, cells_j):
    """same_key on the whole key tuple between input row i and a tuple of cells"""
    return z3.And([same_key(c.cells[i], cj, kind_of(c)) for c, cj in zip(cols, cells_j)])

def tuple_lt(cols, a, b):
    """strict lexicographic 'a before b' on key tuples of cells, ascending with missing last"""
    res = T(False)
    for c, x, y in reversed(list(zip(cols, a, b))):
        k = kind_of(c)
        nx, ny = isna(x, k), isna(y, k)
        lt = z3.Or(z3.And(z3.Not(nx), ny), z3.And(z3.Not(nx), z3.Not(ny), val_lt(x, y, k)))
        res = z3.Or(lt, z3.And(same_key(x, y, k), res))
    return res

def count_same(cols, n, cells_j):
    t = BV(0)
    for i in range(n):
        t = t + z3.If(tuple_same(cols, i, cells_j), BV(1), BV(0))
    return t

class Group(Harness):
    prop = "C04"
    opname = "df_group"
    def __init__(self, mode, kinds, maxn, interleave=None):
        self.mode = mode; self.kinds = kinds; self.maxn = maxn; self.interleave = interleave
        self.name = f"C04.{mode}.{'+'.join(kinds)}{'.then_' + interleave if interleave else ''}.n{maxn}"
        self.bounds = {"rows": f"0..{maxn}", "group column dtypes": [KIND_DTYPE[k] for k in kinds],
                       "history": f"group_by, then {interleave}('v') on the same object, then aggregate" if interleave else "group_by, aggregate"}
        self.symbolic = ["all group-key and value cells, in arbitrary (unsorted) order"]
        self.choice_dims = ["nrow"]
        self.goals = {"aggregate": ["data_frame.py:DataFrame.aggregate", "aggregate.py:count", "aggregate.py:yield_groups"],
                      "count": ["data_frame.py:DataFrame.count"], "split": ["data_frame.py:DataFrame.split"],
                      "modify": ["data_frame.py:DataFrame.modify", "data_frame.py:DataFrame._view_rows"],
                      "helper": ["aggregate.py:mean", "aggregate.py:generic"]}[mode]
    def build(self, ctx):
        n = choice("nrow", range(self.maxn + 1))
        cols = {}
        by = []
        for j, k in enumerate(self.kinds):
            name = "g%d" % j
            cols[name] = mk_col(k, n, name)
            by.append(name)
        cols["v"] = mk_col("f", n, "v")
        cols["rid"] = rid_col(n)
        inp = {"data": Frame(cols), "by": by, "mode": self.mode}
        if self.interleave: inp["interleave"] = self.interleave
        return inp
    def regions(self, inp):
        from .c03 import Sort
        data = inp["data"]
        regs = dict(Sort(["f"], 0).regions({"data": data, "by": [[b, 1] for b in inp["by"]]}))
        regs.pop("sort-int64-min-descending", None)
        if self.mode == "modify":
            regs["grouped-modify-zero-rows"] = T(len(data.cols["rid"]) == 0)
        return regs
    def spec(self, inp, out):
        if isinstance(out, Raised):
            return [(f"does not raise ({out.type}: {out.msg[:60]})", T(False))]
        data = inp["data"]; by = inp["by"]
        n = len(data.cols["rid"])
        gcols = [data.cols[b] for b in by]
        res = out["out"]
        cl = []
        mode = self.mode
        if mode in ("aggregate", "count", "helper"):
            cl.append(("result is a DataFrame", T(isinstance(res, Frame))))
            want = by + {"aggregate": ["k", "n"], "count": ["n"], "helper": ["a1", "a2", "b1", "b2", "c1", "c2", "d1", "d2", "e1", "e2", "f1", "f2", "g1", "g2"]}[mode]
            cl.append((f"result columns are {want}", T(res.names == want)))
            if res.names != want: return cl
            m = len(res.cols[by[0]])
            okeys = [[res.cols[b].cells[j] for b in by] for j in range(m)]
            for b, c in zip(by, gcols):
                cl.append((f"group column {b} keeps its dtype", T(res.cols[b].dtype == c.dtype)))
                if res.cols[b].dtype != c.dtype: return cl
            for j in range(m):
                cnt = count_same(gcols, n, okeys[j])
                cl.append((f"summary row {j} is the key of an existing group", cnt != BV(0)))
                if mode in ("aggregate", "count"):
                    cl.append((f"n of summary row {j} is the group's size", BV(res.cols["n"].cells[j]) == cnt))
                if mode == "helper":
                    cl.append((f"count() of summary row {j} is the group's size", BV(res.cols["d1"].cells[j]) == cnt))
            for a, b in itertools.combinations(range(m), 2):
                cl.append((f"summary rows {a},{b} ascending by group columns (distinct keys)", tuple_lt(gcols, okeys[a], okeys[b])))
            for i in range(n):
                cl.append((f"input row {i} belongs to some summary row",
                           z3.Or([tuple_same(gcols, i, okeys[j]) for j in range(m)] or [T(False)])))
            if mode == "aggregate":
                seen = [[const_int(x) for x in s] for s in out["seen"]]
                cl.append(("one call of the summary function per summary row", T(len(seen) == m)))
                if len(seen) != m: return cl
                flat = sorted(r for s in seen for r in s)
                cl.append(("group slices are disjoint and cover all rows", T(flat == list(range(n)))))
                cl.append(("rows of a group are passed in original order", T(all(s == sorted(s) for s in seen))))
                if flat != list(range(n)): return cl
                for j, s in enumerate(seen):
                    cl.append((f"k of summary row {j} is the slice's row count", BV(res.cols["k"].cells[j]) == BV(len(s))))
                    for r in s:
                        cl.append((f"slice {j} contains only rows of group {j} (row {r})", tuple_same(gcols, r, okeys[j])))
                    cl.append((f"slice {j} contains all rows of group {j}", count_same(gcols, n, okeys[j]) == BV(len(s))))
            if mode == "helper":
                for j in range(m):
                    for a, b in (("a1", "a2"), ("b1", "b2"), ("c1", "c2"), ("d1", "d2"), ("e1", "e2"), ("f1", "f2"), ("g1", "g2")):
                        ca, cb = res.cols[a], res.cols[b]
                        cl.append((f"helper {a} equals lambda {b} in summary row {j}",
                                   summary_equal(ca.cells[j], kind_of(ca), cb.cells[j], kind_of(cb))))
        elif mode == "split":
            groups = [[const_int(x) for x in g] for g in res]
            flat = sorted(r for g in groups for r in g)
            cl.append(("index sets are disjoint and cover every row", T(flat == list(range(n)))))
            if flat != list(range(n)): return cl
            if n: cl.append(("no empty index set", T(all(len(g) > 0 for g in groups))))
            for gi, g in enumerate(groups):
                if not g: continue
                key = [c.cells[g[0]] for c in gcols]
                for r in g[1:]:
                    cl.append((f"index set {gi} holds rows of one group", tuple_same(gcols, r, key)))
                cl.append((f"index set {gi} holds the whole group", count_same(gcols, n, key) == BV(len(g))))
        elif mode == "modify":
            cl.append(("result is a DataFrame with the new columns", T(isinstance(res, Frame) and res.names == data.names + ["size", "first"])))
            if not (isinstance(res, Frame) and res.names == data.names + ["size", "first"]): return cl
            cl.append(("row order unchanged", T(const_ints(res.cols["rid"]) == list(range(n)))))
            if const_ints(res.cols["rid"]) != list(range(n)): return cl
            for i in range(n):
                key = [c.cells[i] for c in gcols]
                cl.append((f"group-wise result at row {i} is its group's size", BV(res.cols["size"].cells[i]) == count_same(gcols, n, key)))
                first = BV(i)
                for j in reversed(range(i)):
                    first = z3.If(tuple_same(gcols, j, key), BV(j), first)
                cl.append((f"group-wise result at row {i} is its group's first row", BV(res.cols["first"].cells[i]) == first))
        return cl

class GroupTwice(Group):
    """count, in-place edit of every key cell, count again: the second partition must only depend on the new keys"""
    def __init__(self, kind, maxn):
        Group.__init__(self, "count", [kind], maxn)
        self.mode = "count_twice"
        self.name = f"C04.count_twice.{kind}.n{maxn}"
        self.bounds = dict(self.bounds, history="count, in-place assignment of new key cells, count again")
    def build(self, ctx):
        from .common import sym_cell, scalar_of
        inp = Group.build(self, ctx)
        inp["mode"] = "count_twice"
        n = len(inp["data"].cols["rid"])
        inp["new"] = [scalar_of(sym_cell(self.kinds[0], f"new{i}"), self.kinds[0]) for i in range(n)]
        return inp
    def regions(self, inp):
        from .common import as_cell
        regs = Group.regions(self, inp)
        data = inp["data"]
        cols = dict(data.cols)
        cols["g0"] = Arr(data.cols["g0"].dtype, [as_cell(x, self.kinds[0]) for x in inp["new"]])
        for k, v in Group.regions(self, dict(inp, data=Frame(cols))).items():
            regs[k] = z3.Or(regs.get(k, T(False)), v)
        return regs
    def spec(self, inp, out):
        from .common import as_cell
        if isinstance(out, Raised): return Group.spec(self, inp, out)
        data = inp["data"]
        cols = dict(data.cols)
        cols["g0"] = Arr(data.cols["g0"].dtype, [as_cell(x, self.kinds[0]) for x in inp["new"]])
        inp2 = dict(inp); inp2["data"] = Frame(cols)
        self.mode = "count"
        try:
            return Group.spec(self, inp2, out)
        finally:
            self.mode = "count_twice"

def harnesses(tier):
    hs = []
    hs.append(GroupTwice("T", 2 if tier == "quick" else 3))
    if tier == "quick":
        for k in ["f", "i", "T", "b"]:
            hs.append(Group("aggregate", [k], 3))
        hs.append(Group("aggregate", ["i", "b"], 3))
        hs.append(Group("aggregate", ["i", "f"], 2))         # two numeric keys of different dtypes (int64 keys beyond 2**53 stay distinct)
        hs.append(Group("count", ["td"], 3)); hs.append(Group("count", ["ns"], 2))
        hs.append(Group("aggregate", ["i"], 2, interleave="count"))
        hs.append(Prepared(Group("count", ["T"], 2)))
        hs.append(Group("aggregate", ["us"], 2))
        for mode in ("count", "split", "modify", "helper"):
            hs.append(Group(mode, ["f"], 3))
            hs.append(Group(mode, ["T"], 2))
    else:
        kinds = ["f", "i", "T", "b", "D", "U", "O", "td", "us", "ns"]
        for k in kinds:
            for mode in ("aggregate", "count", "split", "modify", "helper"):
                # the helper mode enumerates every helper per layout: strings cost 35 min at four rows, three rows there
                hs.append(Group(mode, [k], 3 if mode == "helper" and k in ("T", "U") else 4))
        for k in ("f", "T", "i"):
            hs.append(Group("aggregate", [k], 3, interleave="count")); hs.append(Group("aggregate", [k], 3, interleave="unique"))
        for a, b in [("f", "f"), ("f", "i"), ("i", "b"), ("T", "f"), ("D", "T"), ("b", "f")]:
            for mode in ("aggregate", "count", "split", "modify"):
                hs.append(Group(mode, [a, b], 3))
    return hs
