"""C06 — operations neither mutate nor alias their inputs.

Every harness of the transforming-method families (C02 subsetting, C03 sort, C04 grouping, C05 joins,
C09 reshaping, C11 vector sort/rank/unique) is re-run with a different oracle: the operands after the
call are cell-for-cell identical to the operands before it, and no result buffer is a buffer of an
operand (buffer identity in the NumPy model; np.shares_memory on the real build)."""
import z3

from .. import symx
from ..run import Harness
from ..symx import choice, SymI64
from ..tree import Arr, Frame, Raised
from .common import (T, cell_ident, kind_of, mk_col, rid_col, scalar_of, sym_cell, isna, KIND_DTYPE)
from . import c02, c03, c04, c05, c09, c11

def arr_unchanged(before, after, label):
    cl = []
    if not isinstance(after, Arr):
        return [(f"{label}: still a vector", T(False))]
    cl.append((f"{label}: dtype unchanged", T(before.dtype == after.dtype)))
    cl.append((f"{label}: length unchanged", T(len(before) == len(after))))
    if before.dtype == after.dtype and len(before) == len(after):
        k = kind_of(before)
        for r in range(len(before)):
            cl.append((f"{label}: element {r} unchanged", cell_ident(after.cells[r], before.cells[r], k)))
    return cl

def frame_unchanged(before, after, label, check_group=True):
    if not isinstance(after, Frame):
        return [(f"{label}: still a data frame", T(False))]
    cl = [(f"{label}: same columns in the same order", T(before.names == after.names))]
    if before.names != after.names: return cl
    if check_group:
        cl.append((f"{label}: grouping unchanged", T(tuple(before.group) == tuple(after.group))))
    for nm in before.names:
        cl += arr_unchanged(before.cols[nm], after.cols[nm], f"{label}.{nm}")
    return cl

class NoMutate(Harness):
    prop = "C06"
    def __init__(self, inner, operands, allow_alias=False, group_exception=False, prep=None):
        self.inner = inner; self.operands = operands; self.allow_alias = allow_alias; self.group_exception = group_exception
        self.prep = prep
        self.name = "C06." + inner.name.replace(".", "_", 1) + (".operands_from_" + prep if prep else "")
        self.opname = inner.opname
        self.bounds = dict(inner.bounds, operands="results of an earlier operation (deep copies: columns own their memory)" if prep else
                           "freshly constructed (columns are views of the arrays given)")
        self.symbolic = inner.symbolic; self.choice_dims = inner.choice_dims
        self.goals = inner.goals
    def build(self, ctx):
        inp = self.inner.build(ctx)
        if self.prep: inp["prep"] = self.prep
        return inp
    def regions(self, inp):
        return {}
    def spec(self, inp, out):
        if isinstance(out, Raised):
            return []      # totality belongs to the other properties; nothing was returned to compare
        cl = []
        for in_key, out_key in self.operands:
            before = inp[in_key]; after = out.get(out_key)
            if isinstance(before, list):
                for j, (b, a) in enumerate(zip(before, after)):
                    cl += frame_unchanged(b, a, f"argument {j}")
            elif isinstance(before, Frame):
                cl += frame_unchanged(before, after, in_key, check_group=not self.group_exception)
            else:
                cl += arr_unchanged(before, after, in_key)
        if not self.allow_alias:
            al = out.get("alias")
            cl.append((f"result shares no memory with an operand ({al})", T(al in ([], False, None))))
        return cl

class VecMisc(Harness):
    prop = "C06"
    opname = "vec_misc"
    def __init__(self, method, kind, maxn):
        self.method = method; self.kind = kind; self.maxn = maxn
        self.name = f"C06.vec.{method}.{kind}.n{maxn}"
        self.bounds = {"elements": f"0..{maxn}", "dtype": KIND_DTYPE[kind]}
        self.symbolic = ["all elements", "arguments"]
        self.choice_dims = ["length"]
        self.goals = [f"vector.py:Vector.{'as_datetime' if method == 'as_datetime_ns' else method}"]
    def build(self, ctx):
        n = choice("n", range(self.maxn + 1))
        k = self.kind
        inp = {"v": mk_col(k, n, "x", cls="Vector"), "method": self.method}
        m = self.method
        if m in ("head", "tail"):
            inp["n"] = SymI64(symx.sym_int_range("k", 0, self.maxn + 1))
        elif m == "replace_na":
            c = sym_cell(k, "v"); ctx.assume(z3.Not(isna(c, k)))
            inp["value"] = scalar_of(c, k)
        elif m in ("concat", "equal"):
            inp["other"] = mk_col(k, choice("m", range(self.maxn + 1)), "o", cls="Vector")
        elif m == "sample":
            kk = choice("k", range(0, n + 1))
            draw = [symx.sym_int_range(f"d{j}", 0, n - 1) for j in range(kk)]
            for i in range(kk):
                for j in range(i): ctx.assume(draw[i] != draw[j])
            inp["n"] = kk; inp["draw"] = Arr("int64", draw)
        return inp
    def spec(self, inp, out):
        if isinstance(out, Raised): return []
        cl = arr_unchanged(inp["v"], out["recv"], "receiver")
        if "other" in inp:
            cl += arr_unchanged(inp["other"], out["others"][0], "argument")
        cl.append(("result shares no memory with an operand", T(out["alias"] in (False, []))))
        return cl

class DfMisc(Harness):
    prop = "C06"
    opname = "df_misc"
    def __init__(self, method, kind, maxn):
        self.method = method; self.kind = kind; self.maxn = maxn
        self.name = f"C06.df.{method}.{kind}.n{maxn}"
        self.bounds = {"rows": f"0..{maxn}", "dtype": KIND_DTYPE[kind]}
        self.symbolic = ["all cells"]; self.choice_dims = ["nrow"]
        self.goals = [f"data_frame.py:DataFrame.{method}"] if method != "geo_to_data_frame" else ["geojson.py:GeoJSON.to_data_frame"]
    def build(self, ctx):
        n = choice("n", range(self.maxn + 1))
        if self.method == "geo_to_data_frame":
            geom = Arr("object", [None if choice(f"g{i}", [True, False]) else {"type": "Point", "coordinates": [1, 2]} for i in range(n)])
            return {"data": Frame({"x": mk_col(self.kind, n, "x"), "geometry": geom}, cls="GeoJSON"), "method": self.method,
                    "drop_geometry": choice("drop", [False, True])}
        return {"data": Frame({"x": mk_col(self.kind, n, "x"), "rid": rid_col(n)}), "method": self.method}
    def spec(self, inp, out):
        if isinstance(out, Raised): return []
        cl = frame_unchanged(inp["data"], out["recv"], "receiver")
        if self.method != "copy":      # copy is documented as shallow: sharing is allowed there
            cl.append(("result shares no memory with the receiver", T(out["alias"] == [])))
        return cl

def harnesses(tier):
    hs = []
    q = tier == "quick"
    N = 2 if q else 3
    kinds = ["f", "T", "U"] if q else ["f", "i", "T", "b", "D", "U", "O"]
    for k in kinds:
        for m in ("unique", "drop_na"):
            hs.append(NoMutate(c02.Subset(m, k, N), [("data", "recv")]))
        hs.append(NoMutate(c02.Subset("filter", k, N, "kw"), [("data", "recv")]))
        hs.append(NoMutate(c03.Sort([k], N), [("data", "recv")]))
        if k in ("T", "U", "f"):
            hs.append(NoMutate(c03.Sort([k], N), [("data", "recv")], prep="deepcopy"))
            if not q or k == "U":
                for m in ("unique", "drop_na"):
                    hs.append(NoMutate(c02.Subset(m, k, N), [("data", "recv")], prep="deepcopy"))
                hs.append(NoMutate(c04.Group("aggregate", [k], N), [("data", "recv")], group_exception=True, prep="deepcopy"))
                for j in c05.JOINS:
                    hs.append(NoMutate(c05.Join(j, [k], 2, 2), [("a", "a"), ("b", "b")], prep="deepcopy"))
        hs.append(NoMutate(c04.Group("aggregate", [k], N), [("data", "recv")], group_exception=True))
        hs.append(NoMutate(c04.Group("modify", [k], N), [("data", "recv")], group_exception=True))
        for j in c05.JOINS:
            hs.append(NoMutate(c05.Join(j, [k], 2, 2), [("a", "a"), ("b", "b")]))
        for m in ("sort", "rank", "unique"):
            if k == "O": continue
            hs.append(NoMutate(c11.VecOp(m, k, N), [("v", "recv")]))
        for m in ("head", "tail", "drop_na", "replace_na", "concat", "sample", "tolist", "equal"):
            if k == "O": continue
            hs.append(VecMisc(m, k, N))
        for m in ("deepcopy", "copy", "to_list_of_dicts", "map", "clear"):
            hs.append(DfMisc(m, k, N))
        if k in ("f", "T"): hs.append(VecMisc("map", k, N))
        if k == "f": hs.append(VecMisc("range", k, N))
    for m in ("filter_out", "slice", "slice_off", "head", "tail", "sample"):
        hs.append(NoMutate(c02.Subset(m, "f", N, "mask" if m == "filter_out" else None), [("data", "recv")]))
    hs.append(NoMutate(c02.Subset("slice", "U", N), [("data", "recv")]))
    kk = ["f", "i", "T"] if q else ["f", "U", "T"]
    for m in ("rbind", "cbind", "update", "modify", "select", "unselect", "rename"):
        hs.append(NoMutate(c09.Reshape(m, kk, 2, "one" if m == "rbind" else ""), [("data", "recv"), ("others", "others")] if m in ("rbind", "cbind", "update") else [("data", "recv")]))
    hs.append(NoMutate(c04.Group("count", ["f"], N), [("data", "recv")], group_exception=False))
    hs.append(DfMisc("geo_to_data_frame", "f", N))
    for m in ("as_float", "as_object", "as_boolean"):
        hs.append(VecMisc(m, "i", N))
    hs.append(VecMisc("as_string", "T", N))
    # conversions that have nothing to convert still return new data
    for m, k in (("as_float", "f"), ("as_integer", "i"), ("as_boolean", "b"), ("as_object", "O"), ("as_date", "D"), ("as_datetime", "us"), ("as_datetime", "D"),
                 ("as_datetime_ns", "ns")):
        hs.append(VecMisc(m, k, N))
    return hs
