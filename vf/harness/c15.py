"""C15 — ListOfDicts transformations match plain list-of-dict semantics."""
import itertools

import z3

from .. import symx
from ..run import Harness
from ..symx import choice, SymBool, SymI64, SymPyInt
from ..tree import LoD, Raised
from .common import BV, T

def vE(v):
    """z3 term of an item value (SymPyInt / int)"""
    return BV(v)

def v_ident(a, b):
    if a is None or b is None: return T(a is None and b is None)
    return vE(a) == vE(b)

def py_eq(a, b):
    """Python == between item values (None == None is True)"""
    return v_ident(a, b)

def mk_items(ctx, n, keys, ragged=False, allow_none=True, tag="i", id0=0):
    items = []
    for i in range(n):
        item = [("id", id0 + i)]
        for k in keys:
            opts = ["int"] + (["none"] if allow_none else []) + (["absent"] if ragged else [])
            how = choice(f"{tag}{i}{k}", opts)
            if how == "absent": continue
            item.append((k, None if how == "none" else SymPyInt(symx.sym_i64(f"{tag}{i}{k}"))))
        items.append(item)
    return items

def ids_of(lod):
    return [dict(item).get("id") for item in lod.items]

def item_by_id(items):
    return {dict(it)["id"]: dict(it) for it in items}

def same_item(a, b, label):
    """dict a (result) equals dict b (expected): same keys in the same order, identical values"""
    cl = [(f"{label}: same keys in the same order", T(list(a) == list(b)))]
    if list(a) == list(b):
        for k in a:
            cl.append((f"{label}: value of {k!r}", v_ident(a[k], b[k]) if k != "id" else T(a[k] == b[k])))
    return cl

class LodOp(Harness):
    prop = "C15"
    opname = "lod_op"
    def __init__(self, method, maxn, variant="", pre=None):
        self.method = method; self.maxn = maxn; self.variant = variant; self.pre = pre
        self.name = f"C15.{method}{'.' + variant if variant else ''}{'.after_' + pre if pre else ''}.n{maxn}"
        self.bounds = {"items": f"0..{maxn}", "keys": "id + up to 2 of k, v (ragged where the method allows)", "values": "int64-range ints or None",
                       "receiver": f"a list on which {pre}('k') was called before (it marks the object)" if pre else "freshly constructed"}
        self.symbolic = ["item values", "predicate outcomes", "n / index / multiplier"]
        self.choice_dims = ["length", "per-item key presence and None pattern", "key sets", "slice bounds"]
        tgt = {"add": "__add__", "mul": "__mul__", "rmul": "__rmul__", "getitem": "__getitem__"}.get(method, method)
        self.goals = [f"list_of_dicts.py:ListOfDicts.{tgt}"]
    def build(self, ctx):
        inp = self._build(ctx)
        if self.pre: inp["pre"] = self.pre
        return inp
    def _build(self, ctx):
        m = self.method
        n = choice("n", range(self.maxn + 1))
        N = self.maxn
        ragged = (m in ("select", "unselect", "rename", "modify", "modify_if", "fill_missing_keys", "drop_na", "unique") and self.variant != "keys") or self.variant == "ragged"
        keys = ["k", "v"] if m in ("sort", "unique", "filter", "filter_out", "select", "unselect", "rename", "fill_missing_keys") and self.variant != "one" else ["k"]
        items = mk_items(ctx, n, keys, ragged=ragged)
        inp = {"data": LoD(items), "method": m}
        if m in ("filter", "filter_out"):
            if self.variant == "function":
                inp["cond"] = "function"
                inp["pred"] = [SymBool(symx.sym_bool(f"p{i}")) for i in range(n)]
            else:
                inp["cond"] = "kw"
                ks = choice("fkeys", [["k"], ["k", "v"]])
                inp["pairs"] = [[k, SymPyInt(symx.sym_i64(f"f{k}")) if choice(f"f{k}_none", [False, True]) is False else None] for k in ks]
        elif m == "sort":
            by = choice("by", [["k"], ["k", "v"], ["v", "k"]])
            inp["by"] = [[k, choice(f"dir_{k}", [1, -1])] for k in by]
        elif m == "unique":
            inp["keys"] = choice("ukeys", [["k"], ["k", "v"], []] if self.variant == "keys" else [[]])
        elif m in ("select", "unselect", "drop_na"):
            inp["keys"] = list(choice("skeys", [("k",), ("v", "k"), ("v",), ("z",), ()]))
            if m == "select": inp["keys"] = ["id"] + inp["keys"]      # keep the identity tag
        elif m == "rename":
            inp["pairs"] = [list(p) for p in choice("pairs", [[("z", "k")], [("k", "v"), ("v", "k")], [("z", "q")]])]
        elif m in ("modify", "modify_if"):
            inp["key"] = choice("mkey", ["k", "z"])
            inp["values"] = [SymPyInt(symx.sym_i64(f"nv{i}")) for i in range(n)]
            if m == "modify_if": inp["pred"] = [SymBool(symx.sym_bool(f"p{i}")) for i in range(n)]
        elif m == "fill_missing_keys":
            inp["pairs"] = [list(p) for p in choice("fill", [[], [("k", 7)], [("z", None), ("v", 8)]])]
        elif m in ("append", "insert"):
            inp["item"] = dict(mk_items(ctx, 1, ["k"], tag="new", id0=100)[0])
            if m == "insert":
                inp["index"] = SymPyInt(symx.sym_int_range("index", -(N + 1), N + 1))
        elif m in ("extend", "add"):
            inp["other"] = LoD(mk_items(ctx, choice("m", range(0, 3)), ["k"], tag="o", id0=100))
            if m == "extend":
                form = choice("other_form", ["ListOfDicts", "list", "iter"])
                if form != "ListOfDicts": inp["other"] = [dict(it) for it in inp["other"].items]
                if form == "iter": inp["other_form"] = "iter"          # a one-shot iterator over plain dicts
        elif m in ("mul", "rmul"):
            inp["n"] = SymPyInt(symx.sym_int_range("mult", -1, 2))
        elif m in ("head", "tail"):
            inp["n"] = SymPyInt(symx.sym_int_range("cnt", 0, N + 1)) if choice("n_given", [True, False]) else None
        elif m == "sample":
            # random.sample is an environment stub: the draw is an input (any k distinct positions in any order)
            k = choice("k", [None] + list(range(0, N + 2)))
            kk = min(n, 3 if k is None else k)          # dataiter.DEFAULT_PEEK_ITEMS == 3
            inp["n"] = k
            inp["draw"] = list(choice("draw", list(itertools.permutations(range(n), kk))))
        elif m == "getitem":
            rng = [None] + list(range(-(N + 1), N + 2))
            inp["slice"] = [choice("a", rng), choice("b", rng), choice("c", [None, 1, 2, -1])]
        return inp
    def spec(self, inp, out):
        if isinstance(out, Raised):
            return [(f"does not raise ({out.type}: {out.msg[:60]})", T(False))]
        m = self.method
        data = inp["data"]; res = out["out"]
        if isinstance(res, Raised):
            if m == "sort" and self.variant == "ragged" and res.type == "KeyError":
                return []          # sorting by a key that some item lacks may be refused
            return [(f"does not raise ({res.type}: {res.msg[:60]})", T(False))]
        items = [dict(it) for it in data.items]
        ids = [it["id"] for it in items]
        n = len(items)
        cl = [("result is a ListOfDicts", T(isinstance(res, LoD) and res.cls == "ListOfDicts"))]
        if not isinstance(res, LoD): return cl
        cl.append(("items support attribute access (AttributeDict)", T(res.item_cls in ([], ["AttributeDict"]))))
        rids = ids_of(res)
        ritems = [dict(it) for it in res.items]
        byid = item_by_id(data.items)
        def keep_iff(pred, order_label="kept items in original order, each once"):
            cl.append((order_label, T(all(a < b for a, b in zip(rids, rids[1:])) and all(r in byid for r in rids))))
            for it in items:
                cl.append((f"item {it['id']} kept iff selected", pred(it) == T(it["id"] in rids)))
        def unchanged_items():
            for r, it in zip(rids, ritems):
                if r in byid: cl.extend(same_item(it, byid[r], f"item {r}"))
        if m in ("filter", "filter_out"):
            if inp["cond"] == "function":
                sel = lambda it: inp["pred"][it["id"]].e if isinstance(inp["pred"][it["id"]], SymBool) else T(inp["pred"][it["id"]])
            else:
                sel = lambda it: z3.And([py_eq(it[k], v) for k, v in inp["pairs"]])
            keep_iff(sel if m == "filter" else (lambda it: z3.Not(sel(it))))
            unchanged_items()
        elif m == "drop_na":
            keep_iff(lambda it: T(not any(it.get(k) is None for k in inp["keys"])))
            unchanged_items()
        elif m == "sort":
            cl.append(("output is a permutation of the items", T(sorted(rids) == ids)))
            if sorted(rids) != ids: return cl
            unchanged_items()
            by = inp["by"]
            for p, q in itertools.combinations(range(n), 2):
                a, b = byid[rids[p]], byid[rids[q]]
                tied = T(True)
                for k, d in by:
                    x, y = a[k], b[k]
                    if x is not None and y is not None:
                        wrong = (vE(y) < vE(x)) if d > 0 else (vE(x) < vE(y))
                        cl.append((f"key {k}: output items {p},{q} in requested order", z3.Implies(tied, z3.Not(wrong))))
                        tied = z3.And(tied, vE(x) == vE(y))
                    else:
                        cl.append((f"key {k}: None last (output items {p},{q})", z3.Implies(tied, T(not (x is None and y is not None)))))
                        tied = z3.And(tied, T(x is None and y is None))
                cl.append((f"stable: tied output items {p},{q} keep original order", z3.Implies(tied, T(rids[p] < rids[q]))))
        elif m == "unique":
            keys = inp["keys"]
            if not keys:
                keys = [k for k in (items[0] if items else {}) if all(k in it for it in items)]
            if any(k not in it for it in items for k in keys):
                return cl      # a missing key is outside the claim (KeyError)
            def dup(it):
                return z3.Or([z3.And([py_eq(it[k], o[k]) if k != "id" else T(it[k] == o[k]) for k in keys]) for o in items if o["id"] < it["id"]] or [T(False)])
            keep_iff(lambda it: z3.Not(dup(it)))
            unchanged_items()
        elif m in ("select", "unselect", "rename", "modify", "modify_if", "fill_missing_keys"):
            cl.append(("same items in the same order", T(rids == ids)))
            if rids != ids: return cl
            for it, r in zip(items, ritems):
                if m == "select": exp = {k: it[k] for k in inp["keys"] if k in it}
                elif m == "unselect": exp = {k: v for k, v in it.items() if k not in inp["keys"]}
                elif m == "rename":
                    ren = {fm: to for to, fm in inp["pairs"]}
                    exp = dict(zip([ren.get(k, k) for k in it], it.values()))
                elif m in ("modify", "modify_if"):
                    exp = dict(it)
                    hit = T(True) if m == "modify" else (inp["pred"][it["id"]].e if isinstance(inp["pred"][it["id"]], SymBool) else T(inp["pred"][it["id"]]))
                    newv = inp["values"][it["id"]]
                    if m == "modify":
                        exp[inp["key"]] = newv
                    else:
                        # keys/values depend on the predicate: compare per case
                        k = inp["key"]
                        other = {kk: vv for kk, vv in it.items() if kk != k}
                        got_other = {kk: vv for kk, vv in r.items() if kk != k}
                        cl.extend(same_item(got_other, other, f"item {it['id']} (other keys)"))
                        if k in it:
                            cl.append((f"item {it['id']}: {k!r} modified iff predicate", T(k in r) if True else T(True)))
                            if k in r: cl.append((f"item {it['id']}: value of {k!r}", z3.If(hit, v_ident(r[k], newv), v_ident(r[k], it[k]))))
                        else:
                            cl.append((f"item {it['id']}: {k!r} added iff predicate", hit == T(k in r)))
                            if k in r: cl.append((f"item {it['id']}: value of new {k!r}", v_ident(r[k], newv)))
                        continue
                elif m == "fill_missing_keys":
                    pairs = inp["pairs"] or [[k, None] for k in dict.fromkeys(k for x in items for k in x)]
                    exp = dict(it)
                    for k, v in pairs:
                        if k not in exp: exp[k] = v
                if m in ("select",): cl.extend(same_item(r, exp, f"item {it['id']}"))
                else: cl.extend(same_item(r, exp, f"item {it['id']}"))
        elif m in ("append", "extend", "add", "insert", "mul", "rmul", "reverse", "head", "tail", "getitem", "copy", "deepcopy", "sample"):
            L = len(rids)
            if m == "append": exp = ids + [inp["item"]["id"]]
            elif m == "sample": exp = [ids[i] for i in sorted(inp["draw"])]        # the drawn items, in their original order
            elif m in ("extend", "add"):
                o = inp["other"]; exp = ids + ([dict(it)["id"] for it in o.items] if isinstance(o, LoD) else [x["id"] for x in o])
            elif m == "reverse": exp = ids[::-1]
            elif m in ("copy", "deepcopy"): exp = ids
            elif m == "getitem":
                a, b, c = inp["slice"]; exp = ids[a:b:c]
            elif m in ("head", "tail"):
                nn = inp["n"]
                want = (z3.If(BV(nn) < n, BV(nn), BV(n)) if nn is not None else BV(min(n, 3)))
                cl.append(("item count is min(n, len)", want == BV(L)))
                exp = ids[:L] if m == "head" else ids[n - L:] if L else []
            elif m in ("mul", "rmul"):
                k = BV(inp["n"])
                cl.append(("length is len * max(n, 0)", z3.If(k > 0, k, BV(0)) * n == BV(L)))
                exp = (ids * (L // n)) if n else []
            elif m == "insert":
                idx = BV(inp["index"])
                pos = z3.If(idx < 0, z3.If(idx + n < 0, BV(0), idx + n), z3.If(idx > n, BV(n), idx))
                new = inp["item"]["id"]
                cl.append(("one item more than before", T(L == n + 1)))
                cl.append(("the new item is in the result", T(new in rids)))
                if new in rids and L == n + 1:
                    p = rids.index(new)
                    cl.append(("inserted where list.insert would put it", pos == BV(p)))
                    exp = ids[:p] + [new] + ids[p:]
                else:
                    exp = None
            if exp is not None:
                cl.append((f"item sequence as for the same operation on a list", T(rids == exp)))
            # untouched item contents
            others = {}
            if m in ("append", "insert"): others = {inp["item"]["id"]: inp["item"]}
            if m in ("extend", "add"):
                o = inp["other"]; others = item_by_id(o.items) if isinstance(o, LoD) else {x["id"]: x for x in o}
            for r, it in zip(rids, ritems):
                src = byid.get(r, others.get(r))
                if src is not None: cl.extend(same_item(it, src, f"item {r}"))
        return cl

def harnesses(tier):
    q = tier == "quick"
    N = 3 if q else 4
    hs = [LodOp("filter", N, "function"), LodOp("filter_out", N, "function"), LodOp("filter", N, "kw"), LodOp("filter_out", N, "kw"),
          LodOp("sort", 3), LodOp("sort", 2 if q else 3, "ragged"), LodOp("unique", N, "keys"), LodOp("unique", 2 if q else 3, "ragged"),
          LodOp("drop_na", 2 if q else 3)]
    for m, v in (("unique", "keys"), ("sort", ""), ("getitem", "one")) + ((("filter", "kw"), ("head", "one"), ("copy", "one"), ("reverse", "one")) if not q else ()):
        hs.append(LodOp(m, 2, v, pre="group_by"))
    for m in ("select", "unselect", "rename", "fill_missing_keys"):
        hs.append(LodOp(m, 2))
    for m in ("modify", "modify_if"):
        hs.append(LodOp(m, 2 if q else 3))
    for m in ("append", "extend", "add", "insert", "mul", "rmul", "reverse", "head", "tail", "getitem", "copy", "deepcopy", "sample"):
        hs.append(LodOp(m, N if m != "getitem" else 3, "one"))
    return hs
