"""C03 — sort is a stable, key-ordered permutation of whole rows."""
import itertools

import z3

from .. import symx
from ..run import Harness, Prepared
from ..symx import choice, INT64_MIN
from ..tree import Arr, Frame, Raised
from .common import (BV, T, const_ints, frame_rows_clauses, isna, kind_of, mk_col, rid_col, same_key, val_lt,
                     KIND_DTYPE)

def order_clauses(keycols, dirs, rids):
    """lexicographic order of the output (row ids `rids`, in output order) by keycols [(cells, kind)] and dirs"""
    cl = []
    m = len(rids)
    def na(k, p): return isna(keycols[k][0][rids[p]], keycols[k][1])
    def tie(k, p, q): return same_key(keycols[k][0][rids[p]], keycols[k][0][rids[q]], keycols[k][1])
    def prev_tied(k, p, q):
        return z3.And([tie(j, p, q) for j in range(k)]) if k else T(True)
    for p, q in itertools.combinations(range(m), 2):
        for k, (cells, kind) in enumerate(keycols):
            a, b = cells[rids[p]], cells[rids[q]]
            both = z3.And(z3.Not(na(k, p)), z3.Not(na(k, q)))
            wrong = val_lt(b, a, kind) if dirs[k] > 0 else val_lt(a, b, kind)
            cl.append((f"key {k}: output rows {p},{q} in requested order", z3.Implies(z3.And(prev_tied(k, p, q), both), z3.Not(wrong))))
            if dirs[k] > 0:
                cl.append((f"key {k} ascending: missing after non-missing (output rows {p},{q})",
                           z3.Implies(prev_tied(k, p, q), z3.Not(z3.And(na(k, p), z3.Not(na(k, q)))))))
        cl.append((f"stable: fully tied output rows {p},{q} keep original order",
                   z3.Implies(prev_tied(len(keycols), p, q), T(rids[p] < rids[q]))))
    for p, q, r in itertools.combinations(range(m), 3):
        for k in range(len(keycols)):
            cl.append((f"key {k}: missing rows together at one end of their tie group (output rows {p},{q},{r})",
                       z3.Implies(prev_tied(k, p, r), z3.And(
                           z3.Not(z3.And(na(k, p), z3.Not(na(k, q)), na(k, r))),
                           z3.Not(z3.And(z3.Not(na(k, p)), na(k, q), z3.Not(na(k, r))))))))
    return cl

OBJ_POOL = [None, 2, 10, -1, -2]

class Sort(Harness):
    prop = "C03"
    opname = "df_sort"
    goals = ["data_frame.py:DataFrame.sort"]
    def __init__(self, kinds, maxn):
        self.kinds = kinds; self.maxn = maxn
        self.name = f"C03.sort.{'+'.join(kinds)}.n{maxn}"
        self.bounds = {"rows": f"0..{maxn}", "key dtypes": [KIND_DTYPE[k] for k in kinds], "directions": "all of {1,-1}^k",
                       "payload": "1 float64 column + row id"}
        self.symbolic = ["all key and payload cells"]
        self.choice_dims = ["nrow", "direction per key"]
    def build(self, ctx):
        n = choice("nrow", range(self.maxn + 1))
        cols = {}
        by = []
        for j, k in enumerate(self.kinds):
            name = "k%d" % j
            cols[name] = mk_col(k, n, name)
            if k == "O" and getattr(self, "obj_pool", False):
                # object column of fixed small ints (digit counts and signs differ) and None, instead of symbolic ints
                vals = [OBJ_POOL[choice(f"{name}{i}_pool", range(len(OBJ_POOL)))] for i in range(n)]
                cols[name] = Arr("object", [None if v is None else symx.SymPyInt(z3.BitVecVal(v, 64)) for v in vals])
            by.append([name, choice(f"dir{j}", [1, -1])])
        cols["y"] = mk_col("f", n, "y")
        cols["rid"] = rid_col(n)
        return {"data": Frame(cols), "by": by}
    def regions(self, inp):
        regs = {}
        data = inp["data"]
        for name, d in inp["by"]:
            col = data.cols[name]; k = kind_of(col)
            if k == "i" and d < 0 and col.cells:
                regs["sort-int64-min-descending"] = z3.Or(regs.get("sort-int64-min-descending", T(False)),
                                                          z3.Or([c == INT64_MIN for c in col.cells]))
            if k in ("T", "U") and col.cells:
                hi = z3.Or([z3.And(z3.UGT(c.n, 0), z3.UGE(c.ch[0], 0xFFFF)) if not isinstance(c, str)
                            else T(bool(c) and ord(c[0]) >= 0xFFFF) for c in map(symx.tocell, col.cells)])
                regs["sort-string-ge-uffff"] = z3.Or(regs.get("sort-string-ge-uffff", T(False)), hi)
        return regs
    def spec(self, inp, out):
        if isinstance(out, Raised):
            return [(f"does not raise ({out.type}: {out.msg[:60]})", T(False))]
        data = inp["data"]; res = out["out"]
        n = len(data.cols["rid"])
        cl = [("result is a DataFrame", T(isinstance(res, Frame) and res.cls == "DataFrame")),
              ("column names and order unchanged", T(res.names == data.names))]
        if res.names != data.names: return cl
        rids = const_ints(res.cols["rid"])
        cl.append(("output is a permutation of the input rows", T(sorted(rids) == list(range(n)))))
        if sorted(rids) != list(range(n)): return cl
        cl += frame_rows_clauses(data, res, rids)
        keycols = [(data.cols[name].cells, kind_of(data.cols[name])) for name, _ in inp["by"]]
        cl += order_clauses(keycols, [d for _, d in inp["by"]], rids)
        return cl

class SortTwice(Sort):
    """history: sort, overwrite every key cell in place, sort again - the second result must only depend on the new keys"""
    opname = "df_sort_twice"
    def __init__(self, kind, maxn):
        Sort.__init__(self, [kind], maxn)
        self.name = f"C03.sort_twice.{kind}.n{maxn}"
        self.bounds = dict(self.bounds, history="sort, in-place assignment of new key cells, sort again")
    def build(self, ctx):
        from .common import sym_cell, scalar_of
        inp = Sort.build(self, ctx)
        n = len(inp["data"].cols["rid"])
        inp["new"] = [scalar_of(sym_cell(self.kinds[0], f"new{i}"), self.kinds[0]) for i in range(n)]
        return inp
    def _with_new(self, inp):
        from .common import as_cell
        data = inp["data"]; cols = dict(data.cols)
        cols["k0"] = Arr(data.cols["k0"].dtype, [as_cell(x, self.kinds[0]) for x in inp["new"]])
        return dict(inp, data=Frame(cols))
    def regions(self, inp):
        regs = Sort.regions(self, inp)
        for k, v in Sort.regions(self, self._with_new(inp)).items():
            regs[k] = z3.Or(regs.get(k, T(False)), v)
        return regs
    def spec(self, inp, out):
        return Sort.spec(self, self._with_new(inp), out)

def harnesses(tier):
    hs = []
    hs.append(SortTwice("T", 2))
    if tier == "quick":
        for k in ["f", "i", "T", "b", "D", "U"]:
            hs.append(Sort([k], 3))
        hs.append(Sort(["f", "b"], 3))
        hs.append(Sort(["T", "i"], 2))
        hs.append(Sort(["us"], 3))          # microsecond ticks reach beyond 2**53 within years 1..9999
        hs.append(Sort(["td"], 2)); hs.append(Sort(["ns"], 2)); hs.append(Sort(["O"], 2))
        h = Sort(["O"], 2); h.obj_pool = True; h.name = "C03.sort.O.pool.n2"; h.bounds = dict(h.bounds, values="object ints from {2, 10, -1, -2} and None"); hs.append(h)
        hs.append(Sort(["D"], 4))           # four rows: a tie, a missing value and a larger value together (descending dates go through rank)
        hs.append(Prepared(Sort(["U"], 2))); hs.append(Prepared(Sort(["T", "i"], 2)))
    else:
        for k in ("U", "T", "f", "i"): hs.append(Prepared(Sort([k], 3)))
        kinds = ["f", "i", "T", "b", "D", "us", "U", "O"]
        for k in kinds + ["td", "ns"]:
            hs.append(Sort([k], 4))
        h = Sort(["O"], 3); h.obj_pool = True; h.name = "C03.sort.O.pool.n3"; h.bounds = dict(h.bounds, values="object ints from {2, 10, -1, -2} and None"); hs.append(h)
        for a in kinds:
            for b in kinds:
                hs.append(Sort([a, b], 2))            # every ordered dtype pair
        for a, b in [("f", "b"), ("f", "i"), ("i", "T"), ("T", "f"), ("D", "f"), ("U", "i"), ("b", "us"), ("O", "f")]:
            hs.append(Sort([a, b], 3))                # three rows (ties on the first key + order on the second) for a selection
    return hs
