"""C12 — writing a file and reading it back reproduces the data frame (plumbing claim).

Decided by the solver: dataiter's own part - suffix -> codec on both sides, and that delimiter / header / encoding
options reach writer and reader consistently - over contract models of the file system and of the C serializers
(vf/fsstub.py).  NOT decided: whether pyarrow, pickle, np.savez, json, csv, gzip/bz2/lzma preserve values, dtypes,
Unicode, quoting or newlines; that fidelity is only observed, on each path's witness, through the real files written
and read by the replay."""
import z3

from .. import symx
from ..run import Harness
from ..symx import choice, SymStr
from ..tree import Arr, Frame, LoD, Raised
from .common import BV, T, mk_col, kind_of, KIND_DTYPE
from .c13 import same_frame_clauses
from .c15 import mk_items, same_item

DOCUMENTED_SUFFIX = {"csv", "json", "pickle"}     # formats whose docstring promises compression by suffix

class RoundTrip(Harness):
    prop = "C12"; opname = "file_roundtrip"
    def __init__(self, cls, fmt, maxn, extended=False, notext=False):
        self.cls = cls; self.fmt = fmt; self.maxn = maxn; self.extended = extended; self.notext = notext
        self.name = f"C12.{cls}.{fmt}{'.dates' if extended else ''}{'.notext' if notext else ''}.n{maxn}"
        self.bounds = {"rows / items": f"1..{maxn}", "suffix": ["", ".gz", ".bz2", ".xz"], "options": "sep in {',', ';', tab}, header, encoding in {utf-8, latin-1}" + (" and utf-16" if cls == "ListOfDicts" and fmt != "pickle" else ""),
                       "columns": ("date, datetime64[us], timedelta64[us] (with NaT), bool" if extended else "int64, float64 (with NaN), string" + (", date, datetime64[us], timedelta64[us] (with NaT), bool" if fmt in ("pickle", "npz") else "")) if cls == "DataFrame" else
                                  "text values from a pool with CR LF, LF, quotes, delimiters, tab, non-ASCII (a lone CR is not representable by Python 3.12's csv writer, which leaves it unquoted: outside the claim)"}
        if notext:
            self.bounds.update({"columns": "int64, float64 (with NaN), bool - no text column", "options": "sep in {',', ';', tab}, header, encoding in {utf-8, latin-1, utf-16}"})
        self.symbolic = ["cell values (opaque to the serializer models)"]; self.choice_dims = ["suffix", "sep", "header", "encoding"]
        self.goals = ["util.py:xopen", f"{'data_frame' if cls == 'DataFrame' else 'list_of_dicts'}.py:{cls}.write_{fmt}",
                      f"{'data_frame' if cls == 'DataFrame' else 'list_of_dicts'}.py:{cls}.read_{fmt}"]
    def build(self, ctx):
        n = choice("n", range(1, self.maxn + 1))
        suffix = choice("suffix", ["", ".gz", ".bz2", ".xz"])
        w = []; r = []
        if self.fmt == "csv":
            sep = choice("sep", [",", ";", "\t"])
            if sep != ",": w.append(["sep", sep]); r.append(["sep", sep])
            if choice("header", [True, False]) is False: w.append(["header", False]); r.append(["header", False])
        if self.fmt in ("csv", "json"):
            enc = choice("encoding", ["utf-8", "latin-1"] + (["utf-16"] if self.notext or self.cls == "ListOfDicts" else []))     # utf-16: not a superset of ASCII, so the encoding matters without any text in the data
            if enc != "utf-8": w.append(["encoding", enc]); r.append(["encoding", enc])
        if self.cls == "DataFrame":
            cols = {"a": mk_col("i", n, "a"), "f": mk_col("f", n, "f"), "s": mk_col("T", n, "s")}
            if self.notext:
                cols = {"a": mk_col("i", n, "a"), "f": mk_col("f", n, "f"), "b": mk_col("b", n, "b")}
            if self.fmt in ("pickle", "npz") or self.extended:
                # the binary formats keep every dtype: dates, datetimes, timedeltas (with NaT) and booleans too
                if self.extended: cols = {}
                cols.update({"d": mk_col("D", n, "d"), "t": mk_col("us", n, "t"), "w": mk_col("td", n, "w"), "b": mk_col("b", n, "b")})
            if dict((k, v) for k, v in w).get("encoding") == "latin-1" and "s" in cols:
                for c in cols["s"].cells:
                    for ch in list(c.ch) + [c.sfx]: ctx.assume(z3.ULE(ch, 0xFF), note="data representable in the chosen encoding (latin-1: code points <= U+00FF)")
                c0 = cols["s"].cells[0]
                ctx.assume(z3.And(z3.UGE(c0.n, 1), z3.UGE(c0.ch[0], 0x80)), note="latin-1 paths: the first string starts with a non-ASCII character, so that the encoding matters")
            if self.fmt == "json":
                for c in cols["f"].cells: ctx.assume(z3.Not(z3.fpIsInf(c)))
            obj = Frame(cols)
        else:
            items = []
            for i in range(n):
                items.append([("k", choice(f"k{i}", ["x", "1"])), ("v", choice(f"v{i}", ["", "y", "c\r\nd", "l\nm;\"q\",\tz \u00e9"]))])
            obj = LoD(items)
        return {"obj": obj, "cls": self.cls, "fmt": self.fmt, "suffix": suffix, "wopts": w, "ropts": r}
    def probes(self, inp):
        # the serializers are contract models: aim the real-file observation at what the statement names (delimiters,
        # quotes, newlines inside strings, Unicode, missing first values, numeric corners)
        obj = inp["obj"]
        if not isinstance(obj, Frame) or self.notext: return []
        if "s" not in obj.cols:
            W_ = obj.cols["w"].cells; B = obj.cols["b"].cells
            return [("a missing timedelta beside a present one", z3.And(z3.Or([c == symx.INT64_MIN for c in W_]), z3.Or([c != symx.INT64_MIN for c in W_]))),
                    ("all timedeltas missing", z3.And([c == symx.INT64_MIN for c in W_])),
                    ("a negative timedelta", z3.Or([z3.And(c != symx.INT64_MIN, c < 0) for c in W_])),
                    ("all booleans False", z3.And([z3.Not(c) for c in B]))]
        sep = dict((k, v) for k, v in inp["wopts"]).get("sep", ",")
        pr = []
        S = obj.cols["s"].cells; F = obj.cols["f"].cells; A = obj.cols["a"].cells
        def first_is(ch): return z3.Or([z3.And(z3.UGE(c.n, 2), c.ch[1] == ord(ch), z3.Not(c.tail)) for c in S])
        for label, ch in (("the delimiter", sep), ("a double quote", '"'), ("a line feed", "\n"), ("a carriage return", "\r"),
                          ("a backslash", "\\"), ("a single quote", "'"), ("a space", " ")):
            pr.append((f"string with {label} inside", first_is(ch)))
        pr.append(("string starting with a space", z3.Or([z3.And(z3.UGE(c.n, 2), c.ch[0] == 0x20) for c in S])))
        pr.append(("string with a character beyond the BMP", z3.Or([z3.And(z3.UGE(c.n, 1), z3.UGT(c.ch[0], 0xFFFF)) for c in S])))
        pr.append(("long string (50+ characters)", z3.Or([c.tail for c in S])))
        pr.append(("first string missing", S[0].is_empty()))
        if len(S) > 1:
            # strings spelled like the markers CSV readers take for a missing value, in a column that is plainly text
            def spelled(c, text): return z3.And(c.n == len(text), z3.Not(c.tail), z3.Not(c.cut), *[c.ch[j] == ord(x) for j, x in enumerate(text)])
            for word in ("NA", "na", "-", "?"):
                pr.append((f"the string {word!r} beside an ordinary word", z3.And(spelled(S[0], word), spelled(S[1], "x"))))
                pr.append((f"an ordinary word, then the string {word!r}", z3.And(spelled(S[0], "x"), spelled(S[1], word))))
        if len(S) > 1: pr.append(("first string missing, second present", z3.And(S[0].is_empty(), z3.Not(S[1].is_empty()))))
        pr.append(("all strings missing", z3.And([c.is_empty() for c in S])))
        pr.append(("NaN", z3.Or([z3.fpIsNaN(c) for c in F])))
        pr.append(("all floats NaN", z3.And([z3.fpIsNaN(c) for c in F])))
        pr.append(("infinite float", z3.Or([z3.fpIsInf(c) for c in F])))
        pr.append(("negative zero", z3.Or([z3.And(z3.fpIsZero(c), z3.fpIsNegative(c)) for c in F])))
        pr.append(("subnormal float", z3.Or([z3.fpIsSubnormal(c) for c in F])))
        pr.append(("integral floats only", z3.And([z3.And(z3.Not(z3.fpIsNaN(c)), z3.Not(z3.fpIsInf(c)), c == z3.fpRoundToIntegral(z3.RTZ(), c)) for c in F])))
        pr.append(("INT64_MIN", z3.Or([c == symx.INT64_MIN for c in A])))
        pr.append(("INT64_MAX", z3.Or([c == 2**63 - 1 for c in A])))
        return pr
    def conformance_ignore(self, real, pred):
        # dtypes / header-less column names depend on the real serializers; the concrete spec is evaluated on the real result
        return True
    def regions(self, inp):
        enc = dict((k, v) for k, v in inp["wopts"]).get("encoding")
        return {"suffix-compression-not-offered-for-npz-parquet": T(self.fmt in ("npz", "parquet") and inp["suffix"] != ""),
                # writers that open the compressed stream in text mode themselves (DataFrame.write_csv writes bytes since e228105)
                "utf16-text-stream-on-bz2-xz-has-no-byte-order-mark": T(enc == "utf-16" and inp["suffix"] in (".bz2", ".xz") and self.cls == "ListOfDicts")}
    def spec(self, inp, out):
        if isinstance(out, Raised): return [(f"write then read does not raise ({out.type}: {out.msg[:80]})", T(False))]
        want = {"": "none", ".gz": "gz", ".bz2": "bz2", ".xz": "xz"}[inp["suffix"]]
        if self.fmt == "npz" and want == "none": want = "zip"
        cl = [(f"file with suffix {inp['suffix']!r} is really written with codec {want} (found {out['codec']})", T(out["codec"] == want))]
        back = out["back"]
        obj = inp["obj"]
        if isinstance(obj, Frame):
            header = dict((k, v) for k, v in inp["wopts"]).get("header", True)
            if self.fmt == "csv" and not header:
                # column names are generated (a, b, c, ...) when there is no header line
                cl.append(("same number of columns", T(isinstance(back, Frame) and len(back.names) == len(obj.names))))
                if isinstance(back, Frame) and len(back.names) == len(obj.names):
                    back = Frame(dict(zip(obj.names, back.cols.values())))
            dk = ("b", "i", "f", "T", "D", "us", "td") if self.fmt in ("pickle", "npz", "parquet") else ()
            cl += same_frame_clauses(obj, back, "read back", dk, exact_floats=self.fmt not in ("csv", "json"))
        else:
            cl.append(("same number of items", T(isinstance(back, LoD) and len(back.items) == len(obj.items))))
            if isinstance(back, LoD):
                header = dict((k, v) for k, v in inp["wopts"]).get("header", True)
                for a, b in zip(back.items, obj.items):
                    a = dict(a); b = dict(b)
                    if self.fmt == "csv" and not header: a = dict(zip(b.keys(), a.values()))
                    cl.append(("item read back equal (text values)", T({k: ("" if v is None else v) for k, v in a.items()} == {k: ("" if v is None else v) for k, v in b.items()})))
        return cl

def harnesses(tier):
    n = 1 if tier == "quick" else 2
    hs = [RoundTrip("DataFrame", f, 2 if f in ("pickle", "npz", "parquet", "csv") else n) for f in ("pickle", "npz", "parquet", "csv", "json")]
    hs.append(RoundTrip("DataFrame", "parquet", 2, extended=True))
    hs.append(RoundTrip("DataFrame", "csv", n, notext=True))
    hs += [RoundTrip("ListOfDicts", f, n) for f in ("pickle", "json", "csv")]
    return hs
