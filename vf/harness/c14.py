"""C14 — restricting or aliasing a read never changes what is read."""
import itertools

import z3

from .. import symx
from ..run import Harness
from ..symx import choice, SymPyInt, SymPyFloat, SymStr
from ..tree import Arr, Frame, LoD, Opaque, Raised
from .common import BV, FP, T, cell_ident, kind_of
from ..symx import ident
from .c15 import same_item, v_ident

ALIASES = {
    "read_csv": ["encoding", "sep", "header", "columns", "dtypes"],
    "read_geojson": ["encoding", "columns", "dtypes", "extra_kwarg"],
    "read_json": ["encoding", "keys", "types", "extra_kwarg"],
    "read_npz": ["allow_pickle"],
    "read_parquet": ["columns", "dtypes"],
}

class Alias(Harness):
    prop = "C14"; opname = "io_alias"
    def __init__(self, alias):
        self.alias = alias
        self.name = f"C14.alias.{alias}"
        self.bounds = {"keyword arguments": ALIASES[alias], "values": "one distinguishable sentinel per keyword; every subset of keywords given"}
        self.symbolic = []; self.choice_dims = ["which keywords are passed"]
        self.goals = [f"io.py:{alias}"]
    def build(self, ctx):
        kws = []
        for k in ALIASES[self.alias]:
            if choice(f"give_{k}", [True, False]):
                kws.append([k, Opaque(f"value-of-{k}")])
        return {"alias": self.alias, "path": Opaque("the-path"), "kwargs": kws}
    def spec(self, inp, out):
        if isinstance(out, Raised): return [(f"does not raise ({out.type}: {out.msg[:80]})", T(False))]
        cl = [("alias returns what the class method returns", T(out["returned_target_result"] is True)),
              ("the path is forwarded", T(out["args"] == [inp["path"]] or out["kwargs"].get("path") == inp["path"]))]
        got = out["kwargs"] or {}
        for k, v in inp["kwargs"]:
            cl.append((f"keyword {k} forwarded unchanged", T(got.get(k) == v)))
        return cl

def json_value(ctx, tag):
    how = choice(f"{tag}_kind", ["int", "none"])
    if how == "int": return SymPyInt(symx.sym_i64(tag))
    if how == "none": return None
    return choice(f"{tag}_s", ["a", "b"])

def as_float(cell, dtype):
    """the float64 value DataFrameColumn(values, float) stores for a cell of the unrestricted read"""
    if dtype == "float64": return cell
    if dtype == "int64": return z3.fpSignedToFP(z3.RNE(), BV(cell), z3.Float64())
    if dtype == "bool": return z3.If(cell, symx.fpval(1.0), symx.fpval(0.0))
    if cell is None: return symx.fpval(float("nan"))
    if isinstance(cell, (SymPyInt, int)): return z3.fpSignedToFP(z3.RNE(), BV(cell), z3.Float64())
    raise symx.HarnessError(f"as_float: unexpected cell {cell!r} of dtype {dtype}")

class Restrict(Harness):
    prop = "C14"; opname = "read_restrict"
    def __init__(self, reader, maxn, typed=False):
        self.reader = reader; self.maxn = maxn; self.typed = typed
        self.name = f"C14.restrict.{reader}.n{maxn}" + (".typed" if typed else "")
        self.bounds = {"records": f"0..{maxn}", "keys": "ragged subsets of a, b, c", "restriction": "ordered subsets of a, b, c, z",
                       "type map": "none / float / a user callable on one or two keys (DataFrame.from_json: float on requested columns)"}
        self.symbolic = ["integer values"]; self.choice_dims = ["record shapes", "requested columns and their order"]
        self.goals = {"DataFrame.from_json": ["data_frame.py:DataFrame.from_json"], "ListOfDicts.from_json": ["list_of_dicts.py:ListOfDicts.from_json"],
                      "ListOfDicts.read_csv": ["list_of_dicts.py:ListOfDicts.read_csv"]}[reader]
    def build(self, ctx):
        n = choice("n", range(self.maxn + 1))
        cols = list(choice("cols", [("a",), ("c", "a"), ("b", "z"), ("z",), ("a", "b", "c"), ("b", "a")] if not self.typed else [("c", "a"), ("a", "b", "c"), ("b", "z")]))
        # type / dtype map: "float" is the builtin (its argument is concretised by CPython's float()), "shift" is a
        # user-supplied callable (v -> v + 1000, text -> text + "!") that stays symbolic.  For DataFrame.from_json the map
        # only names columns that are requested and present (a map entry for an unread column raises KeyError there; not examined)
        pool = [(("c", "shift"),), (("a", "float"),), (("c", "float"), ("a", "shift")), (("z", "shift"),)]
        if self.reader == "DataFrame.from_json":
            pool = [(("a", "float"),), (("c", "float"), ("a", "float")), (("a", "str"),)]
        if self.reader == "ListOfDicts.from_json":
            # float() of a symbolic int would have to be concretised (CPython demands a real float): the callable only
            pool = [(("c", "shift"),), (("a", "shift"),), (("c", "shift"), ("a", "shift")), (("z", "shift"),), (("a", "str"),)]
        types = [list(x) for x in choice("types", pool)] if self.typed else []
        if self.reader == "DataFrame.from_json":
            types = [t for t in types if t[0] in cols]
        typed = {k for k, _ in types}
        if self.reader == "ListOfDicts.read_csv":
            header = choice("header", [True, False])
            names = ["a", "b", "c"]
            rows = ([names] if header else []) + [[choice(f"r{i}{k}", ["1", ""] if k not in typed else ["1", "25"]) if k != "b" else "x" for k in names] for i in range(n)]
            return {"reader": self.reader, "records": None, "rows": rows, "header": header, "cols": cols, "types": types}
        recs = []
        for i in range(n):
            rec = {}
            for k in choice(f"keys{i}", [("a", "b", "c"), ("c", "a"), ("b",)] if not self.typed else [("a", "b", "c"), ("c", "a")]):
                if dict(map(tuple, types)).get(k) == "str" and self.reader == "ListOfDicts.from_json":
                    # JSON numbers and booleans that compare equal but are different values, cast with a type that tells them apart
                    rec[k] = [1, 1.0, True, 0, -0.0, False][choice(f"v{i}{k}", range(6))]
                elif dict(map(tuple, types)).get(k) == "str":
                    rec[k] = choice(f"v{i}{k}", [None, "s", "tt"])        # a string column with nulls, requested as str
                else:
                    rec[k] = json_value(ctx, f"v{i}{k}") if (k not in typed or self.reader.startswith("DataFrame")) else SymPyInt(symx.sym_i64(f"v{i}{k}"))
            recs.append(rec)
        if self.reader == "DataFrame.from_json" and types:
            have = {k for r in recs for k in r}
            types = [t for t in types if t[0] in have]
        return {"reader": self.reader, "records": recs, "cols": cols, "types": types}
    def spec(self, inp, out):
        if isinstance(out, Raised): return [(f"does not raise ({out.type}: {out.msg[:80]})", T(False))]
        full, part = out["full"], out["part"]
        cols = inp["cols"]
        types = dict(tuple(t) for t in inp.get("types") or [])
        cl = []
        if isinstance(full, Frame):
            want = [c for c in full.names if c in cols]
            cl.append((f"restricted read has exactly the requested existing columns {sorted(want)}", T(sorted(part.names) == sorted(want))))
            for nm in want:
                if nm not in part.cols: continue
                a, b = part.cols[nm], full.cols[nm]
                if types.get(nm) == "str":
                    cl.append((f"{nm}: string column as requested by dtypes", T(a.dtype == "string" and len(a) == len(b))))
                    if a.dtype == "string" and len(a) == len(b):
                        for r in range(len(a)):
                            src = b.cells[r]
                            want = "" if src is None else src
                            ok = T(a.cells[r] == want) if (type(a.cells[r]) is str and type(want) is str) else symx.tocell(a.cells[r]).eq(symx.tocell(want))
                            cl.append((f"{nm}[{r}]: the unrestricted value as a string, missing for null", ok))
                    continue
                if nm in types:
                    # read everything, select, cast: float64 column; None -> NaN, integers converted, floats kept
                    cl.append((f"{nm}: float64 as requested by dtypes", T(a.dtype == "float64")))
                    cl.append((f"{nm}: same length", T(len(a) == len(b))))
                    if a.dtype == "float64" and len(a) == len(b):
                        for r in range(len(a)):
                            cl.append((f"{nm}[{r}] equals the value read without restriction, cast to float", ident(a.cells[r], as_float(b.cells[r], b.dtype))))
                    continue
                cl.append((f"{nm}: same dtype as in the full read", T(a.dtype == b.dtype)))
                cl.append((f"{nm}: same length", T(len(a) == len(b))))
                if a.dtype == b.dtype and len(a) == len(b):
                    for r in range(len(a)):
                        cl.append((f"{nm}[{r}] equals the value read without restriction", cell_ident(a.cells[r], b.cells[r], kind_of(a) if a.dtype != "object" else "O")))
        else:
            F = [dict(x) for x in full.items]; P = [dict(x) for x in part.items]
            cl.append(("same number of items", T(len(F) == len(P))))
            for i, (f, p) in enumerate(zip(F, P)):
                exp = {k: v for k, v in f.items() if k in cols}
                cl.append((f"item {i}: exactly the requested keys present in the file", T(set(p) == set(exp))))
                for k in exp:
                    if k not in p: continue
                    t = types.get(k)
                    if t is None:
                        cl.append((f"item {i}: value of {k!r} stays under its own name", v_ident(p[k], exp[k]) if not isinstance(exp[k], str) else T(p[k] == exp[k])))
                    elif t == "str":
                        cl.append((f"item {i}: value of {k!r} is the unrestricted value cast with str", T(type(p[k]) is str and p[k] == str(inp["records"][i][k]))))
                    elif isinstance(exp[k], str):
                        if t == "float":
                            cl.append((f"item {i}: value of {k!r} is the unrestricted value cast with {t}", ident(FP(p[k]), symx.fpval(float(exp[k]))) if isinstance(p[k], (float, SymPyFloat)) else T(False)))
                        else:
                            cl.append((f"item {i}: value of {k!r} is the unrestricted value cast with {t}", T(type(p[k]) is str and p[k] == exp[k] + "!")))
                    elif t == "shift":
                        cl.append((f"item {i}: value of {k!r} is the unrestricted value cast with {t}", T(isinstance(p[k], (int, SymPyInt))) if not isinstance(p[k], (int, SymPyInt)) else BV(p[k]) == BV(exp[k]) + 1000))
                    else:
                        isf = isinstance(p[k], (float, SymPyFloat))
                        cl.append((f"item {i}: value of {k!r} is the unrestricted value cast with {t}", ident(FP(p[k]), z3.fpSignedToFP(z3.RNE(), BV(exp[k]), z3.Float64())) if isf else T(False)))
        return cl

class GeoRestrict(Harness):
    prop = "C14"; opname = "geo_restrict"
    goals = ["geojson.py:GeoJSON.read"]
    def __init__(self, maxn, typed=None):
        self.maxn = maxn; self.typed = typed
        self.name = f"C14.restrict.GeoJSON.read.n{maxn}" + (f".{typed}" if typed else "")
        self.bounds = {"features": f"0..{maxn}", "property keys": "ragged subsets of a, b, c", "columns": "ordered subsets of a, b, c, z",
                       "dtype map": f"a: {typed} (null / absent values included)" if typed else "none"}
        self.symbolic = ["integer property values"]; self.choice_dims = ["feature shapes", "requested columns"]
    def build(self, ctx):
        n = choice("n", range(self.maxn + 1))
        feats = []
        for i in range(n):
            props = {}
            for k in choice(f"keys{i}", [("a", "b", "c"), ("c", "a"), ("b",)]):
                if self.typed == "str" and k == "a": props[k] = choice(f"v{i}a", [None, "s", "tt"])
                else: props[k] = json_value(ctx, f"v{i}{k}")
            feats.append({"type": "Feature", "properties": props, "geometry": None})
        cols = list(choice("cols", [("a",), ("c", "a"), ("b", "z"), ("z",), ("a", "b", "c")] if not self.typed else [("a",), ("c", "a"), ("a", "b", "c")]))
        inp = {"collection": {"type": "FeatureCollection", "features": feats}, "cols": cols}
        if self.typed and any("a" in f["properties"] for f in feats):
            inp["dtypes"] = [["a", self.typed]]         # a map entry for a property no feature has raises KeyError (not examined)
        return inp
    def typed_clauses(self, a, b, nm):
        """column a (restricted read with a dtype for it) against column b (unrestricted, uncast): the textbook cast"""
        t = self.typed; cl = []
        n = len(b)
        cl.append((f"{nm}: same length as in the full read", T(len(a) == n)))
        if len(a) != n: return cl
        vals = b.cells if b.dtype == "object" else None
        def missing(r): return (b.cells[r] is None) if b.dtype == "object" else None
        if t == "str":
            cl.append((f"{nm}: string column as requested", T(a.dtype == "string")))
            if a.dtype != "string": return cl
            for r in range(n):
                src = b.cells[r]
                want = "" if src is None else src
                cl.append((f"{nm}[{r}]: the unrestricted value as a string, missing for null", symx.tocell(a.cells[r]).eq(symx.tocell(want)) if not (type(a.cells[r]) is str and type(want) is str) else T(a.cells[r] == want)))
            return cl
        any_null = b.dtype == "object" and any(c is None for c in b.cells)
        want_dtype = "float64" if (t == "float" or any_null or b.dtype == "float64") else "int64"
        cl.append((f"{nm}: {want_dtype} column (integers widen to float when a value is missing)", T(a.dtype == want_dtype)))
        if a.dtype != want_dtype: return cl
        for r in range(n):
            if want_dtype == "float64":
                cl.append((f"{nm}[{r}]: the unrestricted value as a float, NaN for null", ident(a.cells[r], as_float(b.cells[r], b.dtype))))
            else:
                cl.append((f"{nm}[{r}]: the unrestricted value", a.cells[r] == BV(b.cells[r])))
        return cl
    def spec(self, inp, out):
        if isinstance(out, Raised): return [(f"does not raise ({out.type}: {out.msg[:80]})", T(False))]
        full, part = out["full"], out["part"]
        want = [c for c in full.names if c in inp["cols"] or c == "geometry"]
        cl = [(f"restricted read has the requested existing columns and the geometry {sorted(want)}", T(sorted(part.names) == sorted(want)))]
        for nm in want:
            if nm not in part.cols or nm == "geometry": continue
            a, b = part.cols[nm], full.cols[nm]
            if nm == "a" and inp.get("dtypes"):
                cl += self.typed_clauses(a, b, nm); continue
            cl.append((f"{nm}: same dtype and length as in the full read", T(a.dtype == b.dtype and len(a) == len(b))))
            if a.dtype == b.dtype and len(a) == len(b):
                for r in range(len(a)):
                    cl.append((f"{nm}[{r}] equals the value read without restriction", cell_ident(a.cells[r], b.cells[r], kind_of(a) if a.dtype != "object" else "O")))
        return cl

class RestrictFile(Harness):
    """DataFrame.read_csv / read_parquet hand the restriction to pyarrow (include_columns / columns): decided here is
    dataiter's part - that the list and the dtype map reach pyarrow and from_arrow for every order - over the contract
    model of pyarrow in vf/fsstub.py (requested columns, in the requested order); the real pyarrow is observed on witnesses"""
    prop = "C14"; opname = "file_restrict"
    def __init__(self, fmt, maxn, unit=False):
        self.fmt = fmt; self.maxn = maxn; self.unit = unit
        self.name = f"C14.restrict.DataFrame.read_{fmt}.n{maxn}" + (".unit" if unit else "")
        self.bounds = {"rows": f"1..{maxn}", "columns": "a (int64), f (float64 with NaN), s (string)", "restriction": "ordered non-empty subsets of a, f, s",
                       "dtype map": "none / float for a"}
        if unit:
            self.bounds.update({"columns": "a (int64), d (datetime64[D] with NaT)", "restriction": "ordered subsets containing d",
                                "dtype map": "d: datetime64[us] (same kind as stored, another unit)"})
        self.symbolic = ["cell values"]; self.choice_dims = ["nrow", "requested columns and their order", "dtype map"]
        self.goals = [f"data_frame.py:DataFrame.read_{fmt}", "data_frame.py:DataFrame.from_arrow"]
    def build(self, ctx):
        from .common import mk_col
        n = choice("n", range(1, self.maxn + 1))
        if self.unit:
            cols = {"a": mk_col("i", n, "a"), "d": mk_col("D", n, "d")}
            want = list(choice("cols", [("d",), ("a", "d"), ("d", "a")]))
            return {"obj": Frame(cols), "fmt": self.fmt, "cols": want, "types": [["d", "datetime64[us]"]]}
        cols = {"a": mk_col("i", n, "a"), "f": mk_col("f", n, "f"), "s": mk_col("T", n, "s")}
        want = list(choice("cols", [("a",), ("s", "a"), ("f", "s", "a"), ("a", "f"), ("s",)]))
        types = [["a", "float"]] if "a" in want and choice("cast_a", [False, True]) else []
        return {"obj": Frame(cols), "fmt": self.fmt, "cols": want, "types": types}
    def conformance_ignore(self, real, pred):
        return True      # dtypes chosen by the real serializer differ from the contract model; the spec relates two reads of the same world
    def spec(self, inp, out):
        if isinstance(out, Raised): return [(f"does not raise ({out.type}: {out.msg[:80]})", T(False))]
        full, part = out["full"], out["part"]
        types = dict(tuple(t) for t in inp["types"])
        cl = [(f"restricted read has exactly the requested columns {sorted(inp['cols'])}", T(isinstance(part, Frame) and sorted(part.names) == sorted(inp["cols"]))),
              ("full read has all columns", T(isinstance(full, Frame) and sorted(full.names) == sorted(inp["obj"].names)))]
        if not (isinstance(part, Frame) and isinstance(full, Frame)): return cl
        for nm in inp["cols"]:
            if nm not in part.cols or nm not in full.cols: continue
            a, b = part.cols[nm], full.cols[nm]
            cl.append((f"{nm}: same length", T(len(a) == len(b))))
            if len(a) != len(b): continue
            if types.get(nm) == "datetime64[us]":
                cl.append((f"{nm}: datetime64[us] as requested by dtypes", T(a.dtype == "datetime64[us]")))
                from .common import INT64_MIN
                if a.dtype == "datetime64[us]" and b.dtype == "datetime64[D]":
                    for r in range(len(a)):
                        cl.append((f"{nm}[{r}] equals the date read without restriction, cast to microseconds",
                                   BV(a.cells[r]) == z3.If(BV(b.cells[r]) == INT64_MIN, INT64_MIN, BV(b.cells[r]) * BV(86400 * 10**6))))
                elif a.dtype == "datetime64[us]" and b.dtype == "object":      # an entirely missing column has no type in the file
                    for r in range(len(a)):
                        cl.append((f"{nm}[{r}] missing as in the full read", z3.And(T(b.cells[r] is None), BV(a.cells[r]) == INT64_MIN)))
                continue
            if nm in types:
                cl.append((f"{nm}: float64 as requested by dtypes", T(a.dtype == "float64")))
                if a.dtype == "float64":
                    for r in range(len(a)):
                        cl.append((f"{nm}[{r}] equals the value read without restriction, cast to float", ident(a.cells[r], as_float(b.cells[r], b.dtype))))
                continue
            cl.append((f"{nm}: same dtype as in the full read", T(a.dtype == b.dtype)))
            if a.dtype == b.dtype:
                for r in range(len(a)):
                    cl.append((f"{nm}[{r}] equals the value read without restriction", cell_ident(a.cells[r], b.cells[r], kind_of(a) if a.dtype != "object" else "O")))
        return cl

def harnesses(tier):
    hs = [Alias(a) for a in ALIASES]
    hs.append(GeoRestrict(2 if tier == "quick" else 3))
    for t in ("str", "int", "float"):
        hs.append(GeoRestrict(2, typed=t))
    n = 2 if tier == "quick" else 3
    for f in ("csv", "parquet"):
        hs.append(RestrictFile(f, 1 if tier == "quick" else 2))
        hs.append(RestrictFile(f, 1 if tier == "quick" else 2, unit=True))
    for r in ("DataFrame.from_json", "ListOfDicts.from_json", "ListOfDicts.read_csv"):
        hs.append(Restrict(r, n))
        hs.append(Restrict(r, n, typed=True))
    return hs
