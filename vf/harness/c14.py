"""C14 — restricting or aliasing a read never changes what is read."""
import itertools

import z3

from .. import symx
from ..run import Harness
from ..symx import choice, SymPyInt, SymPyFloat, SymStr
from ..tree import Arr, Frame, LoD, Opaque, Raised
from .common import BV, T, cell_ident, kind_of
from .c15 import same_item, v_ident

ALIASES = {
    "read_csv": ["encoding", "sep", "header", "columns", "dtypes"],
    "read_geojson": ["encoding", "columns", "dtypes", "extra_kwarg"],
    "read_json": ["encoding", "keys", "types", "extra_kwarg"],
    "read_npz": ["allow_pickle"],
    "read_parquet": ["columns", "dtypes"],
}

class Alias(Harness):
    prop = "C14"; opname = "io_alias"
    def __init__(self, alias):
        self.alias = alias
        self.name = f"C14.alias.{alias}"
        self.bounds = {"keyword arguments": ALIASES[alias], "values": "one distinguishable sentinel per keyword; every subset of keywords given"}
        self.symbolic = []; self.choice_dims = ["which keywords are passed"]
        self.goals = [f"io.py:{alias}"]
    def build(self, ctx):
        kws = []
        for k in ALIASES[self.alias]:
            if choice(f"give_{k}", [True, False]):
                kws.append([k, Opaque(f"value-of-{k}")])
        return {"alias": self.alias, "path": Opaque("the-path"), "kwargs": kws}
    def spec(self, inp, out):
        if isinstance(out, Raised): return [(f"does not raise ({out.type}: {out.msg[:80]})", T(False))]
        cl = [("alias returns what the class method returns", T(out["returned_target_result"] is True)),
              ("the path is forwarded", T(out["args"] == [inp["path"]] or out["kwargs"].get("path") == inp["path"]))]
        got = out["kwargs"] or {}
        for k, v in inp["kwargs"]:
            cl.append((f"keyword {k} forwarded unchanged", T(got.get(k) == v)))
        return cl

def json_value(ctx, tag):
    how = choice(f"{tag}_kind", ["int", "none"])
    if how == "int": return SymPyInt(symx.sym_i64(tag))
    if how == "none": return None
    return choice(f"{tag}_s", ["a", "b"])

class Restrict(Harness):
    prop = "C14"; opname = "read_restrict"
    def __init__(self, reader, maxn):
        self.reader = reader; self.maxn = maxn
        self.name = f"C14.restrict.{reader}.n{maxn}"
        self.bounds = {"records": f"0..{maxn}", "keys": "ragged subsets of a, b, c", "restriction": "every ordered subset of a, b, c, z"}
        self.symbolic = ["integer values"]; self.choice_dims = ["record shapes", "requested columns and their order"]
        self.goals = {"DataFrame.from_json": ["data_frame.py:DataFrame.from_json"], "ListOfDicts.from_json": ["list_of_dicts.py:ListOfDicts.from_json"],
                      "ListOfDicts.read_csv": ["list_of_dicts.py:ListOfDicts.read_csv"]}[reader]
    def build(self, ctx):
        n = choice("n", range(self.maxn + 1))
        cols = list(choice("cols", [("a",), ("c", "a"), ("b", "z"), ("z",), ("a", "b", "c"), ("b", "a")]))
        if self.reader == "ListOfDicts.read_csv":
            header = choice("header", [True, False])
            names = ["a", "b", "c"]
            rows = ([names] if header else []) + [[choice(f"r{i}{k}", ["1", ""]) if k != "b" else "x" for k in names] for i in range(n)]
            return {"reader": self.reader, "records": None, "rows": rows, "header": header, "cols": cols}
        recs = []
        for i in range(n):
            rec = {}
            for k in choice(f"keys{i}", [("a", "b", "c"), ("c", "a"), ("b",)]):
                rec[k] = json_value(ctx, f"v{i}{k}")
            recs.append(rec)
        return {"reader": self.reader, "records": recs, "cols": cols}
    def spec(self, inp, out):
        if isinstance(out, Raised): return [(f"does not raise ({out.type}: {out.msg[:80]})", T(False))]
        full, part = out["full"], out["part"]
        cols = inp["cols"]
        cl = []
        if isinstance(full, Frame):
            want = [c for c in full.names if c in cols]
            cl.append((f"restricted read has exactly the requested existing columns {sorted(want)}", T(sorted(part.names) == sorted(want))))
            for nm in want:
                if nm not in part.cols: continue
                a, b = part.cols[nm], full.cols[nm]
                cl.append((f"{nm}: same dtype as in the full read", T(a.dtype == b.dtype)))
                cl.append((f"{nm}: same length", T(len(a) == len(b))))
                if a.dtype == b.dtype and len(a) == len(b):
                    for r in range(len(a)):
                        cl.append((f"{nm}[{r}] equals the value read without restriction", cell_ident(a.cells[r], b.cells[r], kind_of(a) if a.dtype != "object" else "O")))
        else:
            F = [dict(x) for x in full.items]; P = [dict(x) for x in part.items]
            cl.append(("same number of items", T(len(F) == len(P))))
            for i, (f, p) in enumerate(zip(F, P)):
                exp = {k: v for k, v in f.items() if k in cols}
                cl.append((f"item {i}: exactly the requested keys present in the file", T(set(p) == set(exp))))
                for k in exp:
                    if k in p:
                        cl.append((f"item {i}: value of {k!r} stays under its own name", v_ident(p[k], exp[k]) if not isinstance(exp[k], str) else T(p[k] == exp[k])))
        return cl

class GeoRestrict(Harness):
    prop = "C14"; opname = "geo_restrict"
    goals = ["geojson.py:GeoJSON.read"]
    def __init__(self, maxn):
        self.maxn = maxn; self.name = f"C14.restrict.GeoJSON.read.n{maxn}"
        self.bounds = {"features": f"0..{maxn}", "property keys": "ragged subsets of a, b, c", "columns": "ordered subsets of a, b, c, z"}
        self.symbolic = ["integer property values"]; self.choice_dims = ["feature shapes", "requested columns"]
    def build(self, ctx):
        n = choice("n", range(self.maxn + 1))
        feats = []
        for i in range(n):
            props = {}
            for k in choice(f"keys{i}", [("a", "b", "c"), ("c", "a"), ("b",)]):
                props[k] = json_value(ctx, f"v{i}{k}")
            feats.append({"type": "Feature", "properties": props, "geometry": None})
        return {"collection": {"type": "FeatureCollection", "features": feats},
                "cols": list(choice("cols", [("a",), ("c", "a"), ("b", "z"), ("z",), ("a", "b", "c")]))}
    def spec(self, inp, out):
        if isinstance(out, Raised): return [(f"does not raise ({out.type}: {out.msg[:80]})", T(False))]
        full, part = out["full"], out["part"]
        want = [c for c in full.names if c in inp["cols"] or c == "geometry"]
        cl = [(f"restricted read has the requested existing columns and the geometry {sorted(want)}", T(sorted(part.names) == sorted(want)))]
        for nm in want:
            if nm not in part.cols or nm == "geometry": continue
            a, b = part.cols[nm], full.cols[nm]
            cl.append((f"{nm}: same dtype and length as in the full read", T(a.dtype == b.dtype and len(a) == len(b))))
            if a.dtype == b.dtype and len(a) == len(b):
                for r in range(len(a)):
                    cl.append((f"{nm}[{r}] equals the value read without restriction", cell_ident(a.cells[r], b.cells[r], kind_of(a) if a.dtype != "object" else "O")))
        return cl

def harnesses(tier):
    hs = [Alias(a) for a in ALIASES]
    hs.append(GeoRestrict(2 if tier == "quick" else 3))
    n = 2 if tier == "quick" else 3
    for r in ("DataFrame.from_json", "ListOfDicts.from_json", "ListOfDicts.read_csv"):
        hs.append(Restrict(r, n))
    return hs
