"""C17 — ListOfDicts shared-dict discipline: isolation and obsolescence."""
import z3

from .. import symx
from ..run import Harness
from ..symx import choice, SymPyInt
from ..tree import LoD, Raised
from .common import BV, T
from .c15 import LodOp, same_item, mk_items
from .c16 import LodJoin
from ..ops import SHARING, EDITING

class Isolation(Harness):
    """(a) methods documented as non-modifying never change the contents of any item"""
    prop = "C17"
    def __init__(self, inner):
        self.inner = inner
        self.name = "C17.isolation." + inner.name.replace(".", "_", 1)
        self.opname = inner.opname; self.bounds = inner.bounds; self.symbolic = inner.symbolic
        self.choice_dims = inner.choice_dims; self.goals = inner.goals
    def build(self, ctx): return self.inner.build(ctx)
    def spec(self, inp, out):
        if isinstance(out, Raised): return []
        cl = []
        if "recv_items" in out:     # also when the method itself raised: the items must still be untouched
            before = [dict(x) for x in inp["data"].items]
            cl.append(("receiver has the same items", T(len(out["recv_items"]) == len(before))))
            for a, b in zip(out["recv_items"], before):
                cl.extend(same_item(a, b, f"receiver item {b.get('id')}"))
        if "b_after" in out:
            B = [dict(x) for x in inp["b"].items]
            cl.append(("right-hand list has the same items", T(len(out["b_after"]) == len(B))))
            for a, b in zip(out["b_after"], B):
                cl.extend(same_item(a, b, f"right item {b.get('idb')}"))
            cl.append(("the right-hand list of a join (no ancestor of anything edited) does not report obsolete", T(out.get("b_obsolete") is False)))
        return cl

class DeepcopyIsolation(Harness):
    prop = "C17"; opname = "lod_deepcopy"
    goals = ["list_of_dicts.py:ListOfDicts.__deepcopy__"]
    def __init__(self, maxn):
        self.maxn = maxn; self.name = f"C17.deepcopy.n{maxn}"
        self.bounds = {"items": f"0..{maxn}"}; self.symbolic = ["item values", "new values"]; self.choice_dims = ["length", "which side is edited"]
    def build(self, ctx):
        n = choice("n", range(self.maxn + 1))
        inp = {"data": LoD(mk_items(ctx, n, ["k"])), "edit": choice("edit", ["copy", "original"]),
               "values": [SymPyInt(symx.sym_i64(f"nv{i}")) for i in range(n)]}
        nested = choice("nested", [None, "tuple", "list", "dict"])
        if nested: inp["nested"] = nested
        if choice("how", ["method", "copy.deepcopy"]) != "method": inp["how"] = "copy.deepcopy"
        return inp
    def spec(self, inp, out):
        if isinstance(out, Raised): return [(f"does not raise ({out.type})", T(False))]
        before = [dict(x) for x in inp["data"].items]
        cl = [("the other side keeps its items", T(len(out["untouched"]) == len(before)))]
        for a, b in zip(out["untouched"], before):
            cl.extend(same_item(a, b, f"item {b['id']} of the side that was not edited"))
        if inp.get("nested"):
            cl.append((f"an edit inside a nested {inp['nested']} value on one side is not seen on the other", T(out.get("nested_untouched") is True)))
        if inp["edit"] == "copy":
            cl.append(("editing a deep copy does not mark the original obsolete", T(not out["data_obsolete"])))
        else:
            cl.append(("editing the original does not mark its deep copy obsolete", T(not out["copy_obsolete"])))
        return cl

class Obsolescence(Harness):
    """(b) derivation histories: obsolete <=> edited node or one of its sharing-ancestors"""
    prop = "C17"; opname = "lod_history"
    goals = ["deco.py:obsoletes", "list_of_dicts.py:ListOfDicts._mark_obsolete", "list_of_dicts.py:ListOfDicts.__getattribute__",
             "list_of_dicts.py:ListOfDicts._new"]
    def __init__(self, depth, methods=None):
        self.depth = depth; self.methods = methods
        self.name = f"C17.obsolescence.d{depth}"
        self.bounds = {"derivation steps": depth, "then": "one editing method on any node, then two uses of every node",
                       "deriving methods": methods or "all sharing methods + deepcopy + ListOfDicts(list) / ListOfDicts(generator) / map(identity)"}
        self.symbolic = []; self.choice_dims = ["target node and method per step", "edited node and editing method"]
    def build(self, ctx):
        steps = []
        nn = 1
        for d in range(self.depth):
            t = choice(f"t{d}", range(nn))
            m = choice(f"m{d}", self.methods or (SHARING + ["deepcopy", "ctor", "ctor_gen", "map_identity"]))
            st = {"target": t, "method": m}
            if m in ("add", "extend"): st["other"] = choice(f"o{d}", range(nn))
            steps.append(st); nn += 1
        steps.append({"target": choice("edit_target", range(nn)), "method": choice("edit", EDITING)})
        return {"data": LoD([[("id", 0), ("k", 1)], [("id", 1), ("k", None)]]), "steps": steps,
                "first_use": choice("first_use", ["named", "slice", "add", "mul", "copy"] if self.depth <= 1 else ["named", "slice"])}
    def regions(self, inp):
        # known finding: the right operand of + / extend is not recorded as a predecessor
        steps = inp["steps"]
        parents = self._parents(steps, full=True)
        edited = steps[-1]["target"]
        anc_full = self._ancestors(parents, edited)
        anc_impl = self._ancestors(self._parents(steps, full=False), edited)
        return {"add-extend-right-operand-not-obsolete": T(anc_full != anc_impl)}
    @staticmethod
    def _parents(steps, full):
        parents = {0: []}
        for i, st in enumerate(steps):
            node = i + 1
            if st["method"] in ("deepcopy", "ctor", "ctor_gen", "map_identity"): parents[node] = []         # new item objects: no sharing
            else:
                parents[node] = [st["target"]]
                if full and st["method"] in ("add", "extend"): parents[node].append(st["other"])
        return parents
    @staticmethod
    def _ancestors(parents, e):
        seen = set(); stack = [e]
        while stack:
            x = stack.pop()
            if x in seen: continue
            seen.add(x); stack.extend(parents[x])
        return seen
    def spec(self, inp, out):
        if isinstance(out, Raised): return [(f"does not raise ({out.type}: {out.msg[:80]})", T(False))]
        steps = inp["steps"]
        parents = self._parents(steps, full=True)
        edited = steps[-1]["target"]
        obsolete = self._ancestors(parents, edited)
        # lists connected to the edited one through methods that hand on the same item objects (in either direction)
        family = {edited}; grew = True
        while grew:
            grew = False
            for node, ps in parents.items():
                for q in ps:
                    if (node in family) != (q in family): family |= {node, q}; grew = True
        cl = []
        for i, flag in enumerate(out["flags"]):
            if flag is None: continue            # a list the program has let go of: nobody can use it
            want = i in obsolete
            what = "the edited list" if i == edited else "an ancestor of the edited list" if want else \
                   "the list returned by the editing method" if i == len(out["flags"]) - 1 else "not an ancestor (or cut off by deepcopy)"
            cl.append((f"node {i} ({what}) obsolete == {want}", T(flag == want)))
            cl.append((f"node {i}: warning printed exactly once iff obsolete", T(out["warnings_total"][i] == (1 if want else 0))))
            cl.append((f"node {i}: no warning on the second use", T(out["second_use"][i] == 0)))
            if i not in family and i < len(out["flags"]) - 1 and out.get("unchanged") is not None:
                cl.append((f"node {i} (shares no item objects with the edited list): its items are untouched by the edit", T(out["unchanged"][i] is True)))
            if "first_use" in out and want and out["warnings_total"][i] == 1:
                pass
        return cl

class ObsolescenceChained(Obsolescence):
    """method chains: before the edit the program drops every list but the original and the one it edits through
    (x.filter(...).sort(...).modify(...)); the original is still an ancestor and must be marked"""
    def __init__(self, depth, methods=None):
        Obsolescence.__init__(self, depth, methods)
        self.name = f"C17.obsolescence_chained.d{depth}" + (f".m{len(methods)}" if methods else "")
        self.bounds = dict(self.bounds, released="before the edit, every list except the original and the edited one is unreferenced and collected")
    def build(self, ctx):
        inp = Obsolescence.build(self, ctx)
        inp["first_use"] = "named"
        last = inp["steps"][-1]
        last["release"] = [i for i in range(1, len(inp["steps"])) if i != last["target"]]
        return inp

class ObsolescenceLate(Obsolescence):
    """a list derived AFTER the edit - also from a list that is obsolete by then - is a fresh list: not obsolete, silent,
    and an edit through it marks it (and warns once) like any other"""
    def __init__(self, depth):
        Obsolescence.__init__(self, depth)
        self.name = f"C17.obsolescence_late.d{depth}"
        self.bounds = dict(self.bounds, afterwards="one more list derived from any node (copy / slice / filter / sort), used, edited through, used twice")
    def build(self, ctx):
        inp = Obsolescence.build(self, ctx)
        inp["first_use"] = "named"
        inp["late"] = {"target": choice("late_target", range(len(inp["steps"]) + 1)), "method": choice("late_method", ["copy", "slice", "filter", "sort"])}
        return inp
    def spec(self, inp, out):
        cl = Obsolescence.spec(self, inp, out)
        if isinstance(out, Raised): return cl
        cl += [("a list derived after the edit is not obsolete when it is created", T(out["late_born_obsolete"] is False)),
               ("using it prints no warning", T(out["late_warns_when_fresh"] == 0)),
               ("an edit through it marks it obsolete", T(out["late_obsolete_after_edit"] is True)),
               ("the list returned by that edit is not obsolete", T(out["late_child_obsolete"] is False)),
               ("it then warns exactly once", T(out["late_warns_after_edit"] == 1))]
        return cl

def harnesses(tier):
    q = tier == "quick"
    hs = []
    for m, v in (("filter", "function"), ("filter_out", "kw"), ("sort", ""), ("unique", "keys"), ("head", "one"), ("tail", "one"),
                 ("sort", "ragged"), ("getitem", "one"), ("copy", "one"), ("reverse", "one"), ("drop_na", ""), ("add", "one"), ("extend", "one"), ("mul", "one"), ("sample", "one")):
        hs.append(Isolation(LodOp(m, 2, v)))
    for kind in ("semi_join", "anti_join", "left_join", "inner_join", "full_join"):
        hs.append(Isolation(LodJoin(kind, 1, 2, 2)))
        hs.append(Isolation(LodJoin(kind, 1, 1 if q else 2, 2, renamed=True)))
    hs.append(DeepcopyIsolation(2 if q else 3))
    hs.append(ObsolescenceLate(1))
    hs.append(Obsolescence(1))
    hs.append(Obsolescence(2))
    hs.append(ObsolescenceChained(2, methods=None if not q else ["copy", "slice", "filter", "sort", "unique", "mul", "append", "add", "deepcopy"]))
    if not q: hs.append(Obsolescence(3, methods=["copy", "slice", "filter", "sort", "add", "deepcopy"]))     # all 17 methods at depth 3 exceed 200 000 paths
    return hs
