"""C01 — every data frame is a well-formed rectangular table (Inv) with coherent key/attribute access (AttrCoh)."""
import keyword

import z3

from .. import symx
from ..run import Harness
from ..symx import choice, SymF64, SymI64
from ..tree import Arr, Frame, Raised
from .common import BV, T, mk_col, sym_cell, KIND_DTYPE
from ..ops import C01_POOL

def inv_clauses(rep, label):
    cl = []
    cl.append((f"{label}: every column is a DataFrameColumn", T(all(c == "DataFrameColumn" for c in rep["classes"]))))
    cl.append((f"{label}: every column is one-dimensional", T(all(d == 1 for d in rep["ndims"]))))
    cl.append((f"{label}: all columns have the same length", T(len(set(rep["lens"])) <= 1)))
    cl.append((f"{label}: nrow is the common length", T(rep["nrow"] == (rep["lens"][0] if rep["lens"] else 0))))
    cl.append((f"{label}: column names unique", T(len(set(rep["names"])) == len(rep["names"]))))
    for p, (inf, has, same, builtin) in rep["attr"].items():
        if inf and p.isidentifier() and not builtin:
            cl.append((f"{label}: column {p!r} reachable identically by key and by attribute", T(same)))
        if not inf and not builtin:
            cl.append((f"{label}: removed/absent column {p!r} is not reachable by attribute", T(not has)))
    return cl

def value_spec(ctx, tag, maxlen, strings=False):
    kind = choice(f"{tag}_kind", ["scalar", "list", "array", "column"])
    n = 1 if kind == "scalar" else choice(f"{tag}_len", range(0, maxlen + 1))
    text = strings and choice(f"{tag}_text", [False, True] + (["sub"] if kind == "scalar" else []))
    if text == "sub":
        return ["strsub", 1, "ab"]      # a scalar that is an instance of a subclass of str (an enum member, a tagged string)
    if text:
        c = symx.sym_str(tag)
        ctx.assume(z3.Not(c.is_empty()), note="broadcast values: floats or non-missing strings (any content, short or 52+ characters)")
        return [kind, n, symx.SymStr(c)]
    return [kind, n, 1.5]

class Broadcast(Harness):
    """(a) constructor and item assignment: broadcast arithmetic on the supplied lengths"""
    prop = "C01"; opname = "df_history"
    goals = ["data_frame.py:DataFrame.__init__", "data_frame.py:DataFrame.__setitem__", "data_frame.py:DataFrame._reconcile_column",
             "data_frame.py:DataFrameColumn.__new__"]
    def __init__(self, maxlen):
        self.maxlen = maxlen
        self.name = f"C01.broadcast.len{maxlen}"
        self.bounds = {"columns": "2 in the constructor + 1 assigned", "lengths": f"0..{maxlen}, scalar"}
        self.symbolic = ["contents of string values"]; self.choice_dims = ["value form (scalar/list/ndarray/DataFrameColumn)", "lengths", "float or string values", "assignment by key or attribute"]
    def build(self, ctx):
        a = value_spec(ctx, "a", self.maxlen); b = value_spec(ctx, "b", self.maxlen, strings=True)
        how = choice("assign", ["setitem", "setattr"])
        return {"init": [["a", a], ["b", b]], "steps": [{"op": how, "name": choice("target", ["c", "a"]), "value": value_spec(ctx, "v", self.maxlen, strings=True)}]}
    def spec(self, inp, out):
        if isinstance(out, Raised): return [(f"operation harness failed {out}", T(False))]
        (_, a), (_, b) = inp["init"]
        lens = [a[1], b[1]]
        mx = max(lens)
        ok_init = all(l in (1, mx) for l in lens)
        cl = [("constructor succeeds iff every length is 1 or the maximum", T((out["init"] == "ok") == ok_init))]
        if out["init"] != "ok":
            cl.append(("mismatch rejected with ValueError", T(out["init"] == "ValueError")))
            return cl
        o0 = out["obs"][0][2]
        cl += inv_clauses(o0, "after constructor")
        cl.append(("constructor broadcasts to the maximum length", T(o0["nrow"] == mx and o0["names"] == ["a", "b"])))
        st = inp["steps"][0]; v = st["value"]; n = mx
        _, status, o1 = out["obs"][1]
        cl += inv_clauses(o1, "after assignment")
        if n >= 1:
            should = v[1] in (1, n)
            cl.append(("assignment succeeds iff the length is 1 or nrow", T((status == "ok") == should)))
        if status == "ok":
            cl.append(("assigned column present, row count unchanged", T(st["name"] in o1["names"] and o1["nrow"] == n)))
        else:
            cl.append(("rejected with ValueError, frame unchanged", T(status == "ValueError" and o1["names"] == o0["names"] and o1["lens"] == o0["lens"])))
        return cl

class Constructor(Harness):
    """every calling form of the constructor (dict-style: keywords, a dict, a list of pairs, a dict or an existing frame plus
    keywords) broadcasts and checks lengths in the same way"""
    prop = "C01"; opname = "df_history"
    goals = ["data_frame.py:DataFrame.__init__", "data_frame.py:DataFrame._check_dimensions"]
    def __init__(self, maxlen):
        self.maxlen = maxlen
        self.name = f"C01.constructor.len{maxlen}"
        self.bounds = {"columns": 2, "lengths": f"0..{maxlen}, scalar", "calling forms": "keywords, dict, list of pairs, dict + keywords, frame + keywords"}
        self.symbolic = ["contents of string values"]; self.choice_dims = ["calling form", "value form", "lengths"]
    def build(self, ctx):
        a = value_spec(ctx, "a", self.maxlen); b = value_spec(ctx, "b", self.maxlen, strings=True)
        return {"init": [["a", a], ["b", b]], "steps": [], "ctor": choice("ctor", ["dict", "pairs", "dict+kwargs", "frame+kwargs"])}
    def spec(self, inp, out):
        if isinstance(out, Raised): return [(f"operation harness failed {out}", T(False))]
        (_, a), (_, b) = inp["init"]
        lens = [a[1], b[1]]; mx = max(lens)
        ok_init = all(l in (1, mx) for l in lens)
        cl = [("constructor succeeds iff every length is 1 or the maximum", T((out["init"] == "ok") == ok_init))]
        if out["init"] != "ok":
            cl.append(("mismatch rejected with ValueError", T(out["init"] == "ValueError")))
            return cl
        o0 = out["obs"][0][2]
        cl += inv_clauses(o0, "after constructor")
        cl.append(("constructor broadcasts to the maximum length", T(o0["nrow"] == mx and o0["names"] == ["a", "b"])))
        return cl

def _pool_frame(ctx, maxn):
    n = choice("nrow", range(maxn + 1))
    names = list(choice("names", [("a",), ("a", "b"), ("a", "a b", "items"), ("nrow", "a"), ("filter", "b", "colnames"), ()]))
    init = []
    for j, nm in enumerate(names):
        if j == 0:
            init.append([nm, Arr("float64", [sym_cell("f", f"x{i}") for i in range(n)])])
        else:
            init.append([nm, Arr("int64", [BV(i % 2) for i in range(n)])])
    return n, names, init

def order_clauses(prev, st, status, rep, label):
    """'column names keep a stable order': the order a Python dict gives - an existing name keeps its place, a new name goes
    last, removal leaves the others as they were; an assigned colnames list is the order afterwards.  Only stated where the
    operation succeeded and its outcome is determined by the documentation; otherwise nothing is demanded of this step."""
    if status != "ok": return []
    o = st["op"]; got = rep["names"]; exp = None
    if o in ("setitem", "setattr", "modify"):
        exp = prev if st["name"] in prev else prev + [st["name"]]
    elif o in ("delitem", "delattr", "pop"):
        exp = [x for x in prev if x != st["name"]]
    elif o == "popitem":
        exp = prev[:-1]
    elif o == "colnames":
        if len(st["names"]) == len(prev) and len(set(st["names"])) == len(prev): exp = list(st["names"])
    elif o in ("filter", "sort", "unique", "head", "slice", "drop_na", "copy", "deepcopy", "rbind"):
        exp = prev
    elif o == "select":
        exp = list(st["names"])
    elif o == "unselect":
        exp = [x for x in prev if x not in st["names"]]
    elif o == "rename":
        if st["name"] in prev and (st["to"] not in prev or st["to"] == st["name"]): exp = [st["to"] if x == st["name"] else x for x in prev]
    elif o == "cbind":
        exp = prev if st["name"] in prev else prev + [st["name"]]       # cbind keeps the first column of a repeated name
    elif o == "left_join":
        return [(f"{label}: the left frame's columns come first, in their order", T(got[:len(prev)] == prev))]
    elif o == "to_lod_back":
        if rep["nrow"] > 0: exp = prev
    if exp is None: return []
    return [(f"{label}: column order is {exp}", T(got == exp))]

class Step(Harness):
    """(b) one public operation from an arbitrary valid frame (names from a pool with awkward names)"""
    prop = "C01"; opname = "df_history"
    goals = ["deco.py:new_from_generator", "data_frame.py:DataFrame._new", "data_frame.py:DataFrame._check_dimensions"]
    def __init__(self, maxn):
        self.maxn = maxn
        self.name = f"C01.step.n{maxn}"
        self.bounds = {"rows": f"0..{maxn}", "columns": "0..3, names from " + repr(C01_POOL)}
        self.symbolic = ["cells of the first column", "filter mask", "slice positions", "n"]
        self.choice_dims = ["nrow", "column names", "operation"]
    def build(self, ctx):
        n, names, init = _pool_frame(ctx, self.maxn)
        ops = ["filter", "sort", "unique", "select", "unselect", "rename", "head", "slice", "modify", "cbind", "rbind", "copy",
               "deepcopy", "drop_na", "left_join", "count", "to_lod_back"]
        o = choice("op", ops)
        st = {"op": o}
        nm = names[0] if names else "a"
        if o == "filter": st["mask"] = Arr("bool", [symx.sym_bool(f"m{i}") for i in range(n)])
        elif o == "sort": st["name"] = nm; st["dir"] = choice("dir", [1, -1])
        elif o in ("unique", "drop_na"): st["names"] = [nm] if names else []
        elif o in ("select", "unselect"): st["names"] = names[:1]
        elif o == "rename": st["name"] = nm; st["to"] = choice("to", ["z", "keys"])
        elif o == "head": st["n"] = SymI64(symx.sym_int_range("n", 0, self.maxn + 1))
        elif o == "slice":
            k = choice("k", range(0, 3) if n else [0])
            st["rows"] = Arr("int64", [symx.sym_int_range(f"r{j}", 0, n - 1) for j in range(k)])
        elif o in ("modify", "cbind"): st["name"] = choice("new", ["z", "a", "items"]); st["value"] = ["list", n, 2.5] if choice("vk", [0, 1]) else ["scalar", 1, 2.5]
        elif o == "left_join": st["name"] = nm; st["other"] = names[-1] if names else "a"
        elif o == "count": st["name"] = nm
        return {"init": init, "steps": [st]}
    def spec(self, inp, out):
        if isinstance(out, Raised): return [(f"operation harness failed {out}", T(False))]
        cl = [("constructor accepts a rectangular input", T(out["init"] == "ok"))]
        if out["init"] != "ok": return cl
        for i, (o, status, rep) in enumerate(out["obs"]):
            cl += inv_clauses(rep, f"after {o}")
            if i >= 1: cl += order_clauses(out["obs"][i - 1][2]["names"], inp["steps"][i - 1], status, rep, f"after {o}")
        return cl

class History(Harness):
    """(c) in-place edit histories: placeholder attributes are extra state not determined by Inv"""
    prop = "C01"; opname = "df_history"
    goals = ["data_frame.py:DataFrame.__delitem__", "data_frame.py:DataFrame.__delattr__", "data_frame.py:DataFrame.pop",
             "data_frame.py:DataFrame.popitem", "data_frame.py:DataFrame.colnames", "data_frame.py:DataFrame.__getattribute__"]
    def __init__(self, depth):
        self.depth = depth
        self.name = f"C01.history.d{depth}"
        self.bounds = {"history length": depth, "rows": 2, "names": repr(C01_POOL[:5] + ["z"])}
        self.symbolic = []; self.choice_dims = ["edit operation and column name per step"]
    def build(self, ctx):
        init = [["a", ["list", 2, 1.0]], ["b", ["list", 2, 2.0]]]
        steps = []
        for d in range(self.depth):
            o = choice(f"op{d}", ["setitem", "setattr", "delitem", "delattr", "pop", "popitem", "colnames"])
            st = {"op": o}
            if o in ("setitem", "setattr"):
                st["name"] = choice(f"nm{d}", ["a", "z", "items", "a b"] if o == "setitem" else ["a", "z"])
                st["value"] = ["list", 2, 3.0]
            elif o in ("delitem", "delattr", "pop"):
                st["name"] = choice(f"nm{d}", ["a", "b", "z", "items"])
            elif o == "colnames":
                st["names"] = list(choice(f"cn{d}", [("b", "a"), ("z",), ("a", "z"), ("items", "b"), ("z", "b"), ("a", "q", "z"), ("q", "b", "z")]))
            steps.append(st)
        return {"init": init, "steps": steps}
    def spec(self, inp, out):
        if isinstance(out, Raised): return [(f"operation harness failed {out}", T(False))]
        cl = []
        for i, (o, status, rep) in enumerate(out["obs"]):
            cl += inv_clauses(rep, f"step {i} ({o}, {status})")
            if i >= 1: cl += order_clauses(out["obs"][i - 1][2]["names"], inp["steps"][i - 1], status, rep, f"step {i} ({o})")
        return cl

def harnesses(tier):
    if tier == "quick":
        return [Broadcast(2), Step(2), History(2), Constructor(2)]
    return [Broadcast(3), Step(3), History(3), Constructor(3)]
