"""C08 — Numba acceleration never changes aggregation results.

Solver-decided part: DataFrame.aggregate with USE_NUMBA off and on (both implementations of every helper as
Python source, Numba-side NA dispatch modelled by cell sort) give the same values, missing positions and
result type, for all cell values / group layouts / helper arguments within the bounds.
Observed-only part (NOT a solver verdict): every witness is replayed on the real Numba build in a fresh
process with a fresh cache; the `order` harness replays short sequences of first uses of several helpers in one
fresh process (the history clause lives in Numba's type inference and caching, which cannot be encoded)."""
import itertools

import z3

from .. import symx
from ..run import Harness
from ..symx import choice, SymF64, SymI64
from ..tree import Arr, Frame, Raised
from .common import BV, T, isna, kind_of, mk_col, summary_equal, KIND_DTYPE
from .c07 import KINDS, LAYOUTS

NUMBA_KINDS = "fibD"

def step_input(ctx, helper, kind, n, lay, tag=""):
    st = {"helper": helper, "x": mk_col(kind, n, "x" + tag, cls="Vector"), "g": Arr("int64", [BV(v) for v in lay])}
    st["drop_na"] = choice("drop_na" + tag, [None, True, False]) if helper not in ("all", "any") else None
    st["ddof"] = None
    if helper == "nth": st["index"] = SymI64(symx.sym_int_range("index" + tag, -(n + 1), n + 1))
    if helper == "quantile":
        q = symx.sym_f64("q" + tag); ctx.assume(z3.And(z3.fpGEQ(q, symx.fpval(0.0)), z3.fpLEQ(q, symx.fpval(1.0))))
        st["q"] = SymF64(q)
    if helper in ("mode", "count_unique") and kind in ("f", "D", "td", "us") and st["drop_na"] in ((None, False) if helper == "count_unique" else (False,)):
        for c in st["x"].cells: ctx.assume(z3.Not(isna(c, kind)))
        ctx.assumptions.append("mode / count_unique with missing values not dropped: inputs without NaN/NaT (as in C07)")
    return st

def _as_float(c):
    """Python float of a concrete float64 cell, else None"""
    if not z3.is_expr(c) or not z3.is_fp(c): return None
    b = z3.simplify(z3.fpToIEEEBV(c))
    if not z3.is_bv_value(b): return None
    import struct
    return struct.unpack("<d", struct.pack("<Q", b.as_long()))[0]

def equal_up_to_rounding(a, ka, b, kb, scale=0.0):
    """'the same values ... up to floating-point rounding': on concrete float results (real build) a tolerance of 1e-9 relative to
    the larger of the results and of the group's input values (`scale`: an interpolation weight or a partial sum rounded at
    1 ulp moves the result by about 1e-16 times the size of the DATA, however small the result itself is), and results that are
    both below 1e-290 in magnitude count as equal; symbolic results must be identical (they are the same uninterpreted
    reducer on both sides)"""
    if ka == "f" and kb == "f":
        x, y = _as_float(a), _as_float(b)
        if x is not None and y is not None and x == x and y == y and abs(x) != float("inf") and abs(y) != float("inf"):
            m = max(abs(x), abs(y))
            return T(x == y or abs(x - y) <= 1e-9 * max(m, scale) or m < 1e-290)
        # symbolic: the same number (NaN with NaN; -0.0 and 0.0 are the same value, as in the concrete comparison above)
        return z3.Or(z3.And(z3.fpIsNaN(a), z3.fpIsNaN(b)), z3.fpEQ(a, b))
    return summary_equal(a, ka, b, kb)

def data_scale(step):
    """largest magnitude among the concrete numeric input values of an aggregation step (0.0 while they are symbolic)"""
    big = 0.0
    x = step.get("x") if isinstance(step, dict) else None
    for c in (getattr(x, "cells", None) or []):
        e = z3.simplify(c) if z3.is_expr(c) else None
        try:
            if e is not None and z3.is_bv_value(e): v = float(abs(e.as_signed_long()))
            elif e is not None and z3.is_fp_value(e): v = _as_float(e)
            else: continue
        except Exception:
            continue
        if v is not None and v == v and abs(v) != float("inf"): big = max(big, abs(v))
    return big

def same_frames(on, off, label, scale=0.0):
    if isinstance(on, Raised) or isinstance(off, Raised):
        return [(f"{label}: neither run raises (on: {on if isinstance(on, Raised) else 'ok'}, off: {off if isinstance(off, Raised) else 'ok'})", T(False))]
    cl = [(f"{label}: same columns", T(on.names == off.names))]
    if on.names != off.names: return cl
    for nm in on.names:
        a, b = on.cols[nm], off.cols[nm]
        cl.append((f"{label}: result type of {nm} is the same with Numba on and off ({a.dtype} vs {b.dtype})", T(a.dtype == b.dtype)))
        cl.append((f"{label}: same number of summary rows", T(len(a) == len(b))))
        if len(a) != len(b): continue
        for j in range(len(a)):
            cl.append((f"{label}: {nm}[{j}] same value / missing position with Numba on and off",
                       equal_up_to_rounding(a.cells[j], kind_of(a), b.cells[j], kind_of(b), scale)))
    return cl

class OnOff(Harness):
    prop = "C08"; opname = "agg_numba"
    def __init__(self, helper, kind, maxn, only_n=False):
        self.helper = helper; self.kind = kind; self.maxn = maxn; self.only_n = only_n
        self.name = f"C08.onoff.{helper}.{kind}.n{maxn}" + (".fixed" if only_n else "")
        self.bounds = {"rows": f"1..{maxn}" if not only_n else str(maxn), "dtype": KIND_DTYPE[kind], "group layouts": "all layouts of <= 3 groups" if maxn <= 3 else "one group, two interleaved groups",
                       "real replay": "fresh interpreter + fresh NUMBA_CACHE_DIR per witness"}
        self.symbolic = ["all cells", "nth index", "q"]; self.choice_dims = ["layout", "drop_na"]
        self.goals = [f"aggregate.py:{helper}", "aggregate.py:use_numba", "aggregate.py:yield_groups_numba"]
    def build(self, ctx):
        n = choice("n", range(1, self.maxn + 1)) if not self.only_n else self.maxn
        lay = choice("layout", LAYOUTS[n])
        return {"steps": [step_input(ctx, self.helper, self.kind, n, lay)]}
    def regions(self, inp):
        # known finding (seen on the real Numba build only: np.median is an uninterpreted function in the model): Numba's
        # median of an integer group adds the two middle elements as int64, NumPy's converts to float first; the results
        # differ when that sum overflows, which needs an element beyond +-2**62
        if self.helper != "median" or self.kind != "i": return {}
        return {"numba-median-int64-middle-sum-overflows": z3.Or([z3.Or(c > 2**62, c < -2**62) for c in inp["steps"][0]["x"].cells])}
    def probes(self, inp):
        # np.mean / median / quantile / std / var are uninterpreted in the model (the same symbol with Numba on and off), so
        # the solver cannot tell the two implementations apart: observe them on the real build at the numeric corners
        if self.helper not in ("mean", "median", "quantile", "std", "var"): return []
        cells = inp["steps"][0]["x"].cells
        if self.kind == "i":
            return [("an element beyond +-2**62", z3.Or([z3.Or(c > 2**62, c < -2**62) for c in cells])),
                    ("all elements beyond +-2**62", z3.And([z3.Or(c > 2**62, c < -2**62) for c in cells])),
                    ("INT64_MIN present", z3.Or([c == symx.INT64_MIN for c in cells])),
                    ("two elements whose sum leaves the int64 range", z3.Or([z3.Not(z3.And(z3.BVAddNoOverflow(a, b, True), z3.BVAddNoUnderflow(a, b)))
                                                                            for i, a in enumerate(cells) for b in cells[i + 1:]] or [T(False)]))]
        if self.kind == "f":
            big = symx.fpval(8.0e307)
            return [("an infinite element", z3.Or([z3.fpIsInf(c) for c in cells])),
                    ("all elements huge", z3.And([z3.fpGT(z3.fpAbs(c), big) for c in cells])),
                    ("a subnormal element", z3.Or([z3.fpIsSubnormal(c) for c in cells])),
                    ("NaN present", z3.Or([z3.fpIsNaN(c) for c in cells]))]
        return []
    def spec(self, inp, out):
        if isinstance(out, Raised): return [(f"does not raise ({out.type}: {out.msg[:80]})", T(False))]
        return same_frames(out["on"][0], out["off"][0], self.helper, data_scale(inp["steps"][0]))

class SameCall(Harness):
    """'whatever aggregations were run before it, in the same call': a helper, then an order-sensitive helper on the
    same column within one aggregate() call (a kernel that reorders or overwrites the group slices it is handed
    changes what the next helper sees)"""
    prop = "C08"; opname = "agg_numba"
    def __init__(self, first, then, kind, maxn):
        self.first = first; self.then = then; self.kind = kind; self.maxn = maxn
        self.name = f"C08.samecall.{first}+{then}.{kind}.n{maxn}"
        self.bounds = {"rows": f"1..{maxn}", "dtype": KIND_DTYPE[kind], "group layouts": "all layouts of <= 3 groups",
                       "call": f"aggregate(y={first}(x), y2={then}(x))", "real replay": "fresh interpreter per witness"}
        self.symbolic = ["all cells", "nth index", "q"]; self.choice_dims = ["layout", "drop_na of the first helper"]
        self.goals = [f"aggregate.py:{first}", f"aggregate.py:{then}", "aggregate.py:use_numba"]
    def build(self, ctx):
        n = choice("n", range(1, self.maxn + 1))
        lay = choice("layout", LAYOUTS[n])
        st = step_input(ctx, self.first, self.kind, n, lay)
        st["then"] = {"helper": self.then, "drop_na": None, "ddof": None}
        if self.then == "nth": st["then"]["index"] = SymI64(symx.sym_int_range("index2", -(n + 1), n + 1))
        return {"steps": [st]}
    def regions(self, inp):
        # the known history finding (Order harness, DESIGN §7): a kernel returning a list that mixes values and None
        # (first / last / nth, mode) first compiled after the min / max kernel in the same process returns missing everywhere
        hit = self.first in ("min", "max") and self.then in ("first", "last", "nth", "mode")
        return {"numba-none-list-kernel-compiled-after-minmax": T(hit)}
    def spec(self, inp, out):
        if isinstance(out, Raised): return [(f"does not raise ({out.type}: {out.msg[:80]})", T(False))]
        return same_frames(out["on"][0], out["off"][0], f"{self.first} then {self.then}", data_scale(inp["steps"][0]))

class Order(Harness):
    """history clause, observed only: several helpers first used in a given order inside one fresh process"""
    prop = "C08"; opname = "agg_numba"
    observed_only = True
    goals = ["aggregate.py:generic_numba"]
    def __init__(self, k):
        self.k = k
        self.name = f"C08.order.k{k}"
        self.bounds = {"helpers first used in one fresh process": k, "frame": "3 rows, 2 groups, float column [1.5, NaN | -2.0] (concrete)"}
        self.symbolic = []; self.choice_dims = ["ordered selection of helpers"]
    def build(self, ctx):
        pool = ["max", "first", "mode", "min", "last", "sum", "mean", "count"]
        seqs = [p for p in itertools.permutations(pool, self.k)]
        seq = choice("order", seqs)
        steps = []
        for j, h in enumerate(seq):
            # concrete cells: the history clause is about compile order, not about values (kept small: one real
            # process with a fresh JIT cache is started per order)
            steps.append({"helper": h, "x": Arr("float64", [symx.fpval(1.5), z3.fpNaN(symx.F64), symx.fpval(-2.0)], "Vector"),
                          "g": Arr("int64", [BV(0), BV(0), BV(1)]), "drop_na": None, "ddof": None})
        return {"steps": steps, "fresh_cache": True}
    def regions(self, inp):
        # known finding: a kernel returning a list that mixes values and None (nth_apply_numba for first/last/nth,
        # mode_apply_numba for mode) that is first compiled AFTER the min/max kernel in the same process returns
        # None for every group
        hs = [st["helper"] for st in inp["steps"]]
        kern = {"first": "nth", "last": "nth", "nth": "nth", "mode": "mode"}
        hit = False
        seen = set()
        minmax = False
        for h in hs:
            k = kern.get(h)
            if k and k not in seen:
                if minmax: hit = True
                seen.add(k)
            if h in ("min", "max"): minmax = True
        return {"numba-none-list-kernel-compiled-after-minmax": T(hit)}
    def spec(self, inp, out):
        if isinstance(out, Raised): return [(f"does not raise ({out.type}: {out.msg[:80]})", T(False))]
        cl = []
        for j, st in enumerate(inp["steps"]):
            cl += same_frames(out["on"][j], out["off"][j], f"step {j} ({st['helper']})", data_scale(st))
        return cl

def harnesses(tier):
    hs = []
    q = tier == "quick"
    allh = ["all", "any", "count", "count_unique", "first", "last", "nth", "min", "max", "mode", "mean", "median", "quantile", "std", "var", "sum"]
    if q:
        # one representative per kernel family (generic_numba with each default/nrequired, nth, mode, count_unique, quantile)
        for h, k in (("any", "f"), ("count", "f"), ("count_unique", "f"), ("nth", "f"), ("min", "f"), ("mode", "f"), ("mean", "f"),
                     ("quantile", "f"), ("std", "f"), ("sum", "f"), ("min", "D"), ("first", "i"), ("max", "b"), ("median", "i")):
            hs.append(OnOff(h, k, 2))
        hs.append(OnOff("mode", "i", 4, only_n=True))       # ties between values that occur twice need four elements
    else:
        for h in allh:
            for k in [k for k in KINDS[h] if k in NUMBA_KINDS]:
                hs.append(OnOff(h, k, 3))
        for h in ("mode", "count_unique", "nth"): hs.append(OnOff(h, "i", 4, only_n=True))
    if q:
        for a, b in (("count_unique", "first"), ("median", "last"), ("mode", "first")):
            hs.append(SameCall(a, b, "f", 2))
    else:
        for a in allh:
            # min / max before first is the known history finding (a compile-order effect the model cannot predict): left to Order
            if "f" in KINDS[a] and a not in ("min", "max"): hs.append(SameCall(a, "first", "f", 3))
        for a, b, k in (("count_unique", "last", "i"), ("mode", "nth", "i"), ("quantile", "last", "f"), ("count_unique", "nth", "D"), ("mode", "first", "D"), ("any", "last", "b"), ("first", "min", "f"), ("last", "max", "i")):
            hs.append(SameCall(a, b, k, 3))
    hs.append(Order(2))
    if not q: hs.append(Order(3))
    return hs
