"""Shared builders and spec predicates for the DataFrame / Vector harnesses."""
import z3

from .. import symx
from ..symx import (F64, INT64_MIN, StrCell, SymBool, SymDT, SymF64, SymI64, SymPyInt, SymStr, choice, ident, tocell)
from ..tree import Arr, Frame, Raised, dtype_kind

# kinds: f float64, i int64, b bool, T string (StringDType), U fixed-width string, D date, us datetime, O object
KIND_DTYPE = {"f": "float64", "i": "int64", "b": "bool", "T": "string", "U": "<U%d" % symx.STR_K,
              "D": "datetime64[D]", "us": "datetime64[us]", "s": "datetime64[s]", "O": "object", "td": "timedelta64[us]",
              "ns": "datetime64[ns]", "m": "datetime64[m]"}

# datetime ticks are assumed within years 1..9999 (as in the property statements)
_DAY_LO, _DAY_HI = -719162, 2932896
_RANGE = {"D": (_DAY_LO, _DAY_HI), "s": (_DAY_LO * 86400, _DAY_HI * 86400 + 86399),
          "us": (_DAY_LO * 86400 * 10**6, (_DAY_HI * 86400 + 86399) * 10**6 + 999999),
          "td": (-10**15, 10**15), "m": (_DAY_LO * 1440, _DAY_HI * 1440 + 1439),
          "ns": (-9 * 10**18, 9 * 10**18)}          # datetime64[ns] (what pandas hands over): years 1685..2255

def sym_cell(kind, tag, allow_na=True):
    c = symx.ctx()
    if kind == "f": return symx.sym_f64(tag)
    if kind == "i": return symx.sym_i64(tag)
    if kind == "b": return symx.sym_bool(tag)
    if kind == "T": return symx.sym_str(tag, allow_tail=True)
    if kind == "U": return symx.sym_str(tag, allow_tail=False)
    if kind in _RANGE:
        v = symx.sym_i64(tag)
        lo, hi = _RANGE[kind]
        c.assume(z3.Or(v == INT64_MIN, z3.And(v >= lo, v <= hi)) if allow_na else z3.And(v >= lo, v <= hi),
                 note="datetime values within years 1..9999 (or NaT)")
        return v
    raise ValueError(kind)

def mk_col(kind, n, tag, cls="ndarray"):
    if kind == "O":
        # object column of Python ints and None: None-ness is a choice, values symbolic
        cells = []
        for i in range(n):
            if choice(f"{tag}{i}_none", [False, True]):
                cells.append(None)
            else:
                cells.append(SymPyInt(symx.sym_i64(f"{tag}{i}")))
        return Arr("object", cells, cls)
    return Arr(KIND_DTYPE[kind], [sym_cell(kind, f"{tag}{i}") for i in range(n)], cls)

def rid_col(n):
    return Arr("int64", [z3.BitVecVal(i, 64) for i in range(n)])

def scalar_of(cell, kind):
    """python-level scalar (as passed by a user) for a cell of the given kind"""
    if kind == "f": return SymF64(cell)
    if kind == "i": return SymI64(cell)
    if kind == "b": return SymBool(cell)
    if kind in ("T", "U"): return cell if isinstance(cell, str) else SymStr(cell)
    if kind == "td": return symx.SymTD(cell, "us")
    if kind in _RANGE: return SymDT(cell, kind)
    return cell

def kind_of(arr):
    k = dtype_kind(arr.dtype)
    if k == "M":
        return arr.dtype[arr.dtype.index("[") + 1:-1] if "[" in arr.dtype else "D"    # generic unit: only NaT can be stored
    if k == "m": return "td"
    return k

# ------------------------------------------------------------------ predicates on cells

def isna(c, kind):
    if kind == "f": return z3.fpIsNaN(c)
    if kind in _RANGE: return c == INT64_MIN
    if kind in ("T", "U"):
        if type(c) is str: return z3.BoolVal(c == "")        # an opaque concrete text (possibly outside the bounded domain)
        return tocell(c).is_empty()
    if kind == "O": return z3.BoolVal(c is None)
    return z3.BoolVal(False)

def val_eq(a, b, kind):
    """== between two non-missing values (NumPy semantics: -0.0 == +0.0)"""
    if kind == "f": return z3.fpEQ(a, b)
    if kind in ("T", "U"): return tocell(a).eq(tocell(b))
    if kind == "O":
        if a is None or b is None: return z3.BoolVal(a is None and b is None)
        return _to_e(a == b)
    return a == b

def val_lt(a, b, kind):
    if kind == "f": return z3.fpLT(a, b)
    if kind == "b": return z3.And(z3.Not(a), b)
    if kind in ("T", "U"): return tocell(a).lt(tocell(b))
    if kind == "O":
        if a is None or b is None: return z3.BoolVal(False)
        return _to_e(a < b)
    return a < b

def np_eq(a, b, kind):
    """result of NumPy's element == (missing float/datetime never equal; '' == '' is True)"""
    if kind == "f": return z3.fpEQ(a, b)
    if kind in _RANGE: return z3.And(a != INT64_MIN, b != INT64_MIN, a == b)
    return val_eq(a, b, kind)

def same_key(a, b, kind):
    """key equality of the property statements: missing values equal each other and nothing else"""
    na, nb = isna(a, kind), isna(b, kind)
    return z3.Or(z3.And(na, nb), z3.And(z3.Not(na), z3.Not(nb), val_eq(a, b, kind)))

def _to_e(x):
    if isinstance(x, SymBool): return x.e
    if isinstance(x, bool): return z3.BoolVal(x)
    return x

def cell_ident(a, b, kind):
    """identical stored value (NaN == NaN, -0.0 != +0.0)"""
    if kind == "O":
        if a is None or b is None: return z3.BoolVal(a is None and b is None)
        if isinstance(a, (SymI64, SymF64, SymBool)) and type(a) is type(b) or (hasattr(a, "e") and hasattr(b, "e")):
            return ident(a.e, b.e)
        return z3.BoolVal(a == b)
    if kind in ("T", "U"):
        if type(a) is str and type(b) is str: return z3.BoolVal(a == b)
        try:
            return tocell(a).eq(tocell(b))
        except symx.ModelGap:
            # a concrete text outside the bounded string domain (e.g. "None") equals no string of the domain
            return z3.BoolVal(False)
    return ident(a, b)

def const_int(e):
    if isinstance(e, int): return e
    if isinstance(e, SymI64): e = e.e
    if isinstance(e, SymF64): e = e.e
    e = z3.simplify(e)
    if z3.is_bv_value(e): return e.as_signed_long()
    if z3.is_fp(e):
        b = z3.simplify(z3.fpToIEEEBV(e))
        import struct
        v = struct.unpack("<d", struct.pack("<Q", b.as_long()))[0]
        if v == int(v): return int(v)
    raise symx.HarnessError(f"expected a concrete integer, got {e}")

def const_ints(arr):
    return [const_int(c) for c in arr.cells]

def BV(i):
    """z3 BitVec(64) term of a Python int / SymI64 / term"""
    if isinstance(i, SymI64): return i.e
    if z3.is_expr(i): return i
    return z3.BitVecVal(int(i), 64)

def FP(x):
    if isinstance(x, SymF64): return x.e
    if z3.is_expr(x): return x
    return symx.fpval(x)

def T(b=True):
    return z3.BoolVal(bool(b))

def frame_rows_clauses(inp_frame, out_frame, rids, prefix="", cols=None):
    """every output cell of every column is identical to the input cell at that row id, dtypes unchanged"""
    cl = []
    for name, icol in inp_frame.cols.items():
        if cols is not None and name not in cols: continue
        if name not in out_frame.cols:
            cl.append((f"{prefix}column {name} present", T(False)))
            continue
        ocol = out_frame.cols[name]
        cl.append((f"{prefix}dtype of {name} unchanged", T(ocol.dtype == icol.dtype)))
        cl.append((f"{prefix}length of {name}", T(len(ocol) == len(rids))))
        if ocol.dtype != icol.dtype or len(ocol) != len(rids): continue
        k = kind_of(icol)
        for j, r in enumerate(rids):
            cl.append((f"{prefix}{name}[{j}] is input row {r}", cell_ident(ocol.cells[j], icol.cells[r], k)))
    return cl

def summary_equal(a, ka, b, kb):
    """two summary cells denote the same value: both missing, or equal non-missing values
    (dtype may differ: a missing float is NaN in a float column and None in an object column)"""
    def num(c, k):
        if k == "f": return c
        if k == "i": return symx.fp_of_bv(c)
        if k == "O" and isinstance(c, SymF64): return c.e
        if k == "O" and isinstance(c, SymI64): return symx.fp_of_bv(c.e)
        return None
    def na(c, k):
        if k == "O":
            if c is None: return T(True)
            if isinstance(c, SymF64): return z3.fpIsNaN(c.e)
            return T(False)
        return isna(c, k)
    na_a, na_b = na(a, ka), na(b, kb)
    if ka in ("T", "U") and kb in ("T", "U"):
        same = cell_ident(a, b, "T")       # fixed-width and variable-width strings: the same text
    elif ka == kb and ka != "O":
        same = cell_ident(a, b, ka)
    else:
        xa, xb = num(a, ka), num(b, kb)
        if xa is not None and xb is not None: same = z3.fpEQ(xa, xb)       # across dtypes: the same number (an integer has no -0)
        elif a is None or b is None: same = T(False)
        else: same = cell_ident(a, b, "O") if ka == kb else T(False)
    return z3.Or(z3.And(na_a, na_b), z3.And(z3.Not(na_a), z3.Not(na_b), same))

def as_cell(v, kind):
    """cell term of a python-level scalar (symbolic scalar object, or a decoded concrete value)"""
    if isinstance(v, SymStr): return v.c
    if isinstance(v, (SymF64, SymI64, SymBool, SymDT, symx.SymTD)):
        if kind == "f" and isinstance(v, SymI64): return symx.fp_of_bv(v.e)
        return v.e
    if kind == "f": return symx.fpval(v)
    if kind == "i" or kind in _RANGE: return z3.BitVecVal(int(v), 64)
    if kind == "b": return z3.BoolVal(bool(v))
    return v
