"""C07 — aggregation helpers compute the documented statistic and NA policy."""
import itertools

import z3

from .. import symx, symnp
from ..run import Harness
from ..symx import choice, SymF64, SymI64, SymBool, SymStr, SymDT, INT64_MIN
from ..tree import Arr, Frame, Raised
from .common import (BV, FP, T, as_cell, cell_ident, isna, kind_of, mk_col, same_key, val_eq, val_lt, KIND_DTYPE)

HELPERS = ["all", "any", "count", "count_unique", "first", "last", "nth", "min", "max", "mode", "mean", "median", "quantile",
           "std", "var", "sum"]
DEFAULT_DROP = {"count": False, "count_unique": False, "first": False, "last": False, "nth": False, "min": True, "max": True,
                "mode": True, "mean": True, "median": True, "quantile": True, "std": True, "var": True, "sum": True}
_TD = ["f", "i", "b", "T", "D", "td"]
KINDS = {"all": list("fib"), "any": list("fib"), "count": _TD, "count_unique": _TD, "first": _TD, "last": _TD, "nth": _TD,
         "min": _TD, "max": _TD, "mode": _TD, "mean": list("fi"), "median": list("fi"), "quantile": list("fi"), "std": list("fi"), "var": list("fi"),
         "sum": list("fib")}
LAYOUTS = {0: [[]], 1: [[0]], 2: [[0, 0], [0, 1], [1, 0]], 3: [[0, 0, 0], [0, 1, 0], [1, 0, 0], [0, 1, 1], [2, 0, 1]],
           4: [[0, 0, 0, 0], [0, 1, 0, 1]]}

def ite_cell(c, a, b, kind):
    if kind in ("T", "U"):
        return symx.StrCell.ite(c, symx.tocell(a), symx.tocell(b))
    return z3.If(c, a, b)

def num_eq(a, b, kind):
    """numerically equal results (either zero accepted for min/max/sum of floats), NaN equal to NaN"""
    if kind == "f": return z3.Or(z3.And(z3.fpIsNaN(a), z3.fpIsNaN(b)), z3.fpEQ(a, b))
    return cell_ident(a, b, kind)

def oracle(helper, cells, kind, args):
    """-> (na, val, vkind): the textbook result is missing iff na, else equals val (a cell of kind vkind)"""
    n = len(cells)
    drop = args.get("drop_na")
    if drop is None: drop = DEFAULT_DROP.get(helper, False)
    if helper in ("all", "any"): drop = False
    nas = [isna(c, kind) for c in cells]
    keep = [z3.Not(x) if drop else T(True) for x in nas]            # element takes part
    cnt = BV(0)
    for k in keep: cnt = cnt + z3.If(k, BV(1), BV(0))
    if helper == "count":
        return T(False), cnt, "i"
    if helper == "count_unique":
        t = BV(0)
        for i in range(n):
            dup = z3.Or([z3.And(keep[j], same_key(cells[i], cells[j], kind)) for j in range(i)] or [T(False)])
            t = t + z3.If(z3.And(keep[i], z3.Not(dup)), BV(1), BV(0))
        return T(False), t, "i"
    if helper in ("all", "any"):
        def truth(c):
            if kind == "b": return c
            if kind == "i": return c != 0
            return z3.Not(z3.fpIsZero(c))          # NaN is truthy
        ts = [truth(c) for c in cells]
        return T(False), (z3.And(ts) if helper == "all" else z3.Or(ts)) if ts else T(helper == "all"), "b"
    if helper in ("first", "last", "nth"):
        idx = BV(0) if helper == "first" else BV(-1) if helper == "last" else BV(args["index"])
        pos = z3.If(idx < 0, idx + cnt, idx)            # position among the participating elements
        inrange = z3.And(pos >= 0, pos < cnt)
        na = z3.Not(inrange); val = None
        for i in reversed(range(n)):
            rank = BV(0)
            for j in range(i): rank = rank + z3.If(keep[j], BV(1), BV(0))
            hit = z3.And(keep[i], rank == pos)
            val = cells[i] if val is None else ite_cell(hit, cells[i], val, kind)
            na = z3.If(hit, nas[i], na)
        if val is None: return T(True), None, kind
        return na, val, kind
    if helper in ("min", "max"):
        have = T(False); val = None; poisoned = T(False)
        for i in range(n):
            c = cells[i]
            if val is None:
                val = c; have = keep[i]
            else:
                better = val_lt(c, val, kind) if helper == "min" else val_lt(val, c, kind)
                val = ite_cell(z3.And(keep[i], z3.Or(z3.Not(have), better)), c, val, kind)
                have = z3.Or(have, keep[i])
            if kind in ("f", "D", "us", "s", "td"):
                poisoned = z3.Or(poisoned, z3.And(keep[i], nas[i]))     # a missing value propagates when not dropped
        if val is None: return T(True), None, kind
        return z3.Or(z3.Not(have), poisoned, isna(val, kind) if kind in ("T", "U") else T(False)), val, kind
    if helper == "sum":
        if kind == "f":
            return "sum_f", None, "f"       # handled by sum_clauses (per missing-pattern sequential fold)
        t = BV(0)
        for i in range(n):
            t = t + (cells[i] if kind == "i" else z3.If(cells[i], BV(1), BV(0)))
        return T(False), t, "i"
    if helper == "mode":
        best = None; bestc = None; have = T(False)
        for i in range(n):
            ci = BV(0)
            for j in range(n):
                ci = ci + z3.If(z3.And(keep[j], same_key(cells[i], cells[j], kind)), BV(1), BV(0))
            if best is None:
                best = cells[i]; bestc = z3.If(keep[i], ci, BV(0)); have = keep[i]
            else:
                take = z3.And(keep[i], ci > bestc)
                best = ite_cell(take, cells[i], best, kind); bestc = z3.If(take, ci, bestc); have = z3.Or(have, keep[i])
        if best is None: return T(True), None, kind
        return z3.Or(z3.Not(have), isna(best, kind) if kind not in ("i", "b") else T(False)), best, kind
    raise ValueError(helper)

def uf_clauses(helper, cells, kind, args, out_cell, label):
    """mean/median/quantile/std/var: the uninterpreted NumPy reducer on exactly the participating elements,
    or NaN when fewer than the statistic needs"""
    n = len(cells)
    drop = args.get("drop_na")
    if drop is None: drop = True
    need = 2 if helper in ("std", "var") else 1
    fps = [c if kind == "f" else symx.fp_of_bv(c) for c in cells]
    nas = [isna(c, kind) for c in cells]
    cl = []
    for pattern in itertools.product([True, False], repeat=n):
        if not drop and not all(pattern): continue
        cond = z3.And([z3.Not(nas[i]) if pattern[i] else nas[i] for i in range(n)]) if drop else T(True)
        if z3.is_false(z3.simplify(cond)): continue
        part = [fps[i] for i in range(n) if pattern[i]]
        if len(part) < need:
            want = z3.fpIsNaN(out_cell)
        else:
            extra = (int(args.get("ddof") or 0),) if helper in ("std", "var") else ()
            want = out_cell == symnp.uf_reducer(helper, list(part), extra, [FP(args["q"])] if helper == "quantile" else [])
        cl.append((f"{label}: {helper} of the {'non-missing ' if drop else ''}elements ({sum(pattern)} of {n})", z3.Implies(cond, want)))
    return cl

def sum_clauses(cells, args, out_cell, okind, label):
    """float sum: sequential summation of the participating elements, in order (0 when none take part)"""
    n = len(cells)
    drop = args.get("drop_na")
    if drop is None: drop = True
    nas = [z3.fpIsNaN(c) for c in cells]
    cl = []
    for pattern in itertools.product([True, False], repeat=n):
        if not drop and not all(pattern): continue
        cond = z3.And([z3.Not(nas[i]) if pattern[i] else nas[i] for i in range(n)]) if drop else T(True)
        part = [cells[i] for i in range(n) if pattern[i]]
        if not part:
            want = (out_cell == BV(0)) if okind == "i" else z3.fpIsZero(out_cell) if okind == "f" else T(False)
        else:
            t = part[0]
            for c in part[1:]: t = z3.fpAdd(symx.RNE, t, c)
            want = num_eq(out_cell, t, "f") if okind == "f" else T(False)
        cl.append((f"{label}: sum of the {'non-missing ' if drop else ''}elements ({sum(pattern)} of {n})", z3.Implies(cond, want)))
    return cl

def out_matches(out, okind, na, val, vkind, label):
    """the returned scalar / summary cell `out` (kind okind) denotes the oracle result"""
    def out_na():
        if okind == "O": return T(out is None) if not isinstance(out, SymF64) else z3.fpIsNaN(out.e)
        return isna(out, okind)
    if val is None:
        return [(f"{label}: missing value for an empty selection", out_na())]
    if okind == vkind:
        eq = num_eq(out, val, vkind)
    elif okind == "f" and vkind in ("i", "b"):
        eq = out == (symx.fp_of_bv(val) if vkind == "i" else z3.If(val, symx.fpval(1.0), symx.fpval(0.0)))
    elif okind == "i" and vkind == "b":
        eq = out == z3.If(val, BV(1), BV(0))
    elif okind == "O":
        if out is None: eq = T(False)
        else: eq = num_eq(as_cell(out, vkind), val, vkind) if not isinstance(out, (str, bool)) or vkind in ("T", "b") else T(False)
    elif okind == "i" and vkind == "f":
        eq = symx.fp_of_bv(out) == val
    else:
        eq = T(False)
    return [(f"{label}: missing iff the statistic is undefined / propagates", out_na() == na),
            (f"{label}: value of the statistic", z3.Or(na, eq))]

def scalar_kind(x):
    """(cell, kind) of a python-level scalar returned by the vector calling form"""
    if x is None: return None, "O"
    if isinstance(x, SymF64): return x.e, "f"
    if isinstance(x, SymBool): return x.e, "b"
    if isinstance(x, bool): return z3.BoolVal(x), "b"
    if isinstance(x, SymI64): return x.e, "i"
    if isinstance(x, int): return BV(x), "i"
    if isinstance(x, float): return symx.fpval(x), "f"
    if isinstance(x, SymStr): return x.c, "T"
    if isinstance(x, str): return x, "T"
    if isinstance(x, SymDT): return x.e, "M"
    if isinstance(x, symx.SymTD): return x.e, "M"
    return x, "O"

class Helper(Harness):
    prop = "C07"; opname = "agg_helper"
    def __init__(self, helper, kind, form, maxn):
        self.helper = helper; self.kind = kind; self.form = form; self.maxn = maxn
        self.name = f"C07.{helper}.{kind}.{form}.n{maxn}"
        self.bounds = {"elements": f"0..{maxn}", "dtype": KIND_DTYPE[kind], "calling form": form,
                       "group layouts": "all contiguous and non-contiguous layouts of <= 3 groups" if form == "group" else "-"}
        self.symbolic = ["all elements (missing values anywhere)", "nth index in -(N+1)..N+1", "quantile q"]
        self.choice_dims = ["length / group layout", "drop_na", "ddof"]
        self.goals = [f"aggregate.py:{helper}"] + (["aggregate.py:yield_groups", "data_frame.py:DataFrame.aggregate"] if form == "group" else [])
    def build(self, ctx):
        h = self.helper; k = self.kind
        if self.form == "vector":
            n = choice("n", range(self.maxn + 1)); lay = None
        else:
            n = choice("n", range(1, self.maxn + 1))
            lay = choice("layout", LAYOUTS[n])
        inp = {"helper": h, "form": self.form, "x": mk_col(k, n, "x", cls="Vector")}
        if lay is not None: inp["g"] = Arr("int64", [BV(v) for v in lay])
        inp["drop_na"] = choice("drop_na", [None, True, False]) if h not in ("all", "any") else None
        inp["ddof"] = choice("ddof", [None, 1]) if h in ("std", "var") else None
        if h in ("mode", "count_unique") and k in ("f", "D", "us", "td") and inp["drop_na"] in ((None, False) if h == "count_unique" else (False,)):
            for c in inp["x"].cells: ctx.assume(z3.Not(isna(c, k)))
            ctx.assumptions.append("mode / count_unique with missing values NOT dropped: inputs without NaN/NaT (the statement does not say "
                                   "whether two missing values count as one value; the existing test-suite pins 'each NaN is its own value')")
        if h == "nth": inp["index"] = SymI64(symx.sym_int_range("index", -(self.maxn + 1), self.maxn + 1))
        if h == "quantile":
            q = symx.sym_f64("q"); ctx.assume(z3.And(z3.fpGEQ(q, symx.fpval(0.0)), z3.fpLEQ(q, symx.fpval(1.0))))
            inp["q"] = SymF64(q)
        return inp
    def spec(self, inp, out):
        if isinstance(out, Raised):
            return [(f"does not raise ({out.type}: {out.msg[:60]})", T(False))]
        h = self.helper; k = self.kind
        cells = inp["x"].cells
        args = {"drop_na": inp.get("drop_na"), "ddof": inp.get("ddof"), "index": inp.get("index"), "q": inp.get("q")}
        cl = []
        if self.form == "vector":
            oc, ok = scalar_kind(out["out"])
            if ok == "M": ok = k
            if h in ("mean", "median", "quantile", "std", "var"):
                if ok != "f": return [("result is a float", T(False))]
                return uf_clauses(h, cells, k, args, oc, "vector")
            na, val, vk = oracle(h, cells, k, args)
            if isinstance(na, str): return sum_clauses(cells, args, oc, ok, "vector")
            return out_matches(oc, ok, na, val, vk, "vector")
        res = out["out"]
        lay = [z3.simplify(BV(c)).as_signed_long() for c in inp["g"].cells]
        groups = sorted(set(lay))
        cl.append(("one summary row per group, ascending", T(isinstance(res, Frame) and res.names == ["g", "y"] and
                                                                [z3.simplify(BV(c)).as_signed_long() for c in res.cols["g"].cells] == groups)))
        if not (isinstance(res, Frame) and res.names == ["g", "y"]) or len(res.cols["y"]) != len(groups): return cl
        ycol = res.cols["y"]; yk = kind_of(ycol)
        for j, g in enumerate(groups):
            gc = [cells[i] for i in range(len(lay)) if lay[i] == g]
            oc = ycol.cells[j]
            if h in ("mean", "median", "quantile", "std", "var"):
                if yk != "f": cl.append((f"group {g}: result column is float", T(False))); continue
                cl += uf_clauses(h, gc, k, args, oc, f"group {g}")
            else:
                na, val, vk = oracle(h, gc, k, args)
                if isinstance(na, str): cl += sum_clauses(gc, args, oc, yk, f"group {g}")
                else: cl += out_matches(oc, yk, na, val, vk, f"group {g}")
        return cl

class HelperThen(Helper):
    """two helpers on the same column in one aggregate() call: each must still be the textbook statistic of the group
    (a helper that reorders or overwrites the group slices it is handed changes what the next one sees)"""
    def __init__(self, helper, kind, then, maxn):
        Helper.__init__(self, helper, kind, "group", maxn)
        self.then = then
        self.name = f"C07.{helper}+{then}.{kind}.group.n{maxn}"
        self.bounds = dict(self.bounds, call=f"aggregate(y={helper}(x), y2={then}(x))")
        self.goals = self.goals + [f"aggregate.py:{then}"]
        self._second = Helper(then, kind, "group", maxn)
    def build(self, ctx):
        inp = Helper.build(self, ctx)
        inp["then"] = {"helper": self.then, "drop_na": None, "ddof": None}
        return inp
    def spec(self, inp, out):
        if isinstance(out, Raised): return Helper.spec(self, inp, out)
        res = out["out"]
        if not (isinstance(res, Frame) and res.names == ["g", "y", "y2"]):
            return [("summary has the columns g, y, y2", T(False))]
        first = Frame({"g": res.cols["g"], "y": res.cols["y"]})
        second = Frame({"g": res.cols["g"], "y": res.cols["y2"]})
        inp2 = dict(inp, helper=self.then, drop_na=None, ddof=None)
        return ([(f"{self.helper}: {l}", c) for l, c in Helper.spec(self, inp, {"out": first})] +
                [(f"then {self.then}: {l}", c) for l, c in self._second.spec(inp2, {"out": second})])

def harnesses(tier):
    hs = []
    q = tier == "quick"
    for h in HELPERS:
        kinds = KINDS[h]
        for k in (kinds if not q else kinds[:1] + (kinds[3:4] if h in ("min", "mode", "count_unique", "nth") else []) + (["td"] if h in ("min", "count", "first") else [])):
            kk = {"D": "D"}.get(k, k)
            for form in ("vector", "group"):
                hs.append(Helper(h, kk, form, 3 if (q or h in ("mode", "nth")) else 3))
    for a, b in ((("median", "first"), ("mode", "last"), ("count_unique", "first")) if q else
                 [(h, "first") for h in HELPERS if h not in ("first", "nth")] + [("median", "last"), ("quantile", "last"), ("mode", "last")]):
        if "f" in KINDS[a]: hs.append(HelperThen(a, "f", b, 2 if q else 3))
    if q:
        hs.append(Helper("sum", "i", "group", 2)); hs.append(Helper("max", "i", "vector", 3)); hs.append(Helper("all", "b", "group", 2))
    return hs
