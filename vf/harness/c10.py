"""C10 — Vector construction and the missing-value model are coherent."""
import datetime as _dtm
import itertools

import z3

from .. import symx
from ..run import Harness
from ..symx import (choice, SymBool, SymF64, SymI64, SymPyBool, SymPyFloat, SymPyInt, SymStr, SymDT, SymTD, INT64_MIN)
from ..tree import Arr, NpScalar, Opaque, Raised
from .common import (BV, T, as_cell, cell_ident, isna, kind_of, mk_col, same_key, sym_cell, val_eq, KIND_DTYPE)

DATES = [_dtm.date(2020, 2, 29), _dtm.date(1969, 12, 31)]
DATETIMES = [_dtm.datetime(2020, 2, 29, 12, 30, 15, 250000), _dtm.datetime(1969, 12, 31, 23, 59, 59)]
DELTAS = [_dtm.timedelta(days=1, seconds=5), _dtm.timedelta(microseconds=-7)]
FAMILY_KIND = {"bool": "b", "int": "i", "float": "f", "intfloat": "f", "str": "T", "date": "D", "datetime": "us", "td": "td",
               "npfloat": "f", "npint": "i", "obj": "O"}

def elem(ctx, fam, i):
    """(value passed to Vector, reference: (is_missing z3, cell-or-None of the family's kind))"""
    if fam == "bool":
        b = symx.sym_bool(f"e{i}"); return SymPyBool(b), (T(False), b)
    if fam in ("int", "npint"):
        v = symx.sym_int_range(f"e{i}", -2**53, 2**53)
        return (SymPyInt(v) if fam == "int" else NpScalar(SymI64(v))), (T(False), v)
    if fam in ("float", "npfloat"):
        v = symx.sym_f64(f"e{i}")
        return (SymPyFloat(v) if fam == "float" else NpScalar(SymF64(v))), (z3.fpIsNaN(v), v)
    if fam == "intfloat":
        if i % 2 == 0:
            v = symx.sym_int_range(f"e{i}", -2**53, 2**53); return SymPyInt(v), (T(False), symx.fp_of_bv(v))
        v = symx.sym_f64(f"e{i}"); return SymPyFloat(v), (z3.fpIsNaN(v), v)
    if fam == "str":
        c = symx.sym_str(f"e{i}"); return SymStr(c), (c.is_empty(), c)
    if fam == "date":
        d = choice(f"e{i}_date", DATES); return d, (T(False), BV((d - _dtm.date(1970, 1, 1)).days))
    if fam == "datetime":
        d = choice(f"e{i}_dt", DATETIMES); return d, (T(False), BV((d - _dtm.datetime(1970, 1, 1)) // _dtm.timedelta(microseconds=1)))
    if fam == "td":
        d = choice(f"e{i}_td", DELTAS); us = d // _dtm.timedelta(microseconds=1)
        return NpScalar(SymTD(us, "us")), (T(False), BV(us))
    if fam == "obj":
        return Opaque(f"obj{i}"), (T(False), Opaque(f"obj{i}"))
    raise ValueError(fam)

class Build(Harness):
    prop = "C10"; opname = "vec_build"
    goals = ["vector.py:Vector.__new__", "vector.py:Vector._std_to_np", "vector.py:Vector._std_to_np_na_value", "util.py:unique_types",
             "vector.py:Vector.is_na", "vector.py:Vector.tolist", "vector.py:Vector.equal", "vector.py:Vector.na_value", "vector.py:Vector.na_dtype"]
    def __init__(self, fam, maxn, dtype=None, source=None):
        self.fam = fam; self.maxn = maxn; self.dtype = dtype; self.source = source
        self.name = f"C10.build.{fam}{'.as_' + dtype if dtype else ''}{'.from_' + source if source else ''}.n{maxn}"
        self.bounds = {"elements": f"0..{maxn}", "element family": fam, "explicit dtype": dtype,
                       "ints": "|x| <= 2**53 (integers widen to float next to a missing value)"}
        self.symbolic = ["values of bool/int/float/str elements (a symbolic float may itself be NaN, a symbolic str may be '')"]
        self.choice_dims = ["length", "per element: value / None / NaN", "dates, datetimes, timedeltas from a pool of 2"]
    def build(self, ctx):
        n = choice("n", range(self.maxn + 1))
        seq = []; ref = []
        for i in range(n):
            how = choice(f"e{i}_how", ["value", "none", "nan"])
            if how == "none": seq.append(None); ref.append((T(True), None))
            elif how == "nan": seq.append(float("nan")); ref.append((T(True), None))
            else:
                v, r = elem(ctx, self.fam, i); seq.append(v); ref.append(r)
        self._ref = ref
        inp = {"seq": seq}
        if self.dtype: inp["dtype"] = self.dtype
        if self.source: inp["source"] = self.source
        k = FAMILY_KIND[self.fam]
        if self.fam in ("float", "npfloat", "str") and n >= 1 and not isinstance(seq[0], float) and seq[0] is not None:
            c = sym_cell(k, "fill"); ctx.assume(z3.Not(isna(c, k)))
            inp["fill"] = SymPyFloat(c) if k != "T" else SymStr(c)
        return inp
    def ref_of(self, inp):
        """(missing, cell) per element, recomputed from the inputs (works for decoded concrete inputs too)"""
        out = []
        fam = self.fam
        for i, v in enumerate(inp["seq"]):
            if isinstance(v, NpScalar): v = v.value
            if v is None: out.append((T(True), None)); continue
            if isinstance(v, float) and not isinstance(v, SymF64) and v != v: out.append((T(True), None)); continue
            if isinstance(v, SymF64) and not isinstance(v, SymPyFloat) and fam not in ("float", "npfloat", "intfloat"):
                out.append((T(True), None)); continue       # a decoded NaN placeholder in a non-float family
            if isinstance(v, SymF64) and z3.is_true(z3.simplify(z3.fpIsNaN(v.e))) and fam == "intfloat" and i % 2 == 0:
                out.append((T(True), None)); continue
            k = FAMILY_KIND[fam]
            if fam == "obj": out.append((T(False), v)); continue
            if fam == "date": out.append((T(False), BV((v - _dtm.date(1970, 1, 1)).days))); continue
            if fam == "datetime": out.append((T(False), BV((v - _dtm.datetime(1970, 1, 1)) // _dtm.timedelta(microseconds=1)))); continue
            if fam == "td": out.append((T(False), v.e if isinstance(v, SymTD) else BV(v // _dtm.timedelta(microseconds=1)))); continue
            if fam == "intfloat":
                c = symx.fp_of_bv(BV(v)) if (isinstance(v, (SymI64, int)) and not isinstance(v, (SymF64,))) else as_cell(v, "f")
                out.append((z3.fpIsNaN(c), c)); continue
            c = as_cell(v, k)
            out.append((isna(c, k) if k in ("f", "T") else T(False), c))
        return out
    def spec(self, inp, out):
        if isinstance(out, Raised):
            return [(f"does not raise ({out.type}: {out.msg[:60]})", T(False))]
        ref = self.ref_of(inp)
        n = len(ref); fam = self.fam; k = FAMILY_KIND[fam]
        v = out["v"]
        cl = [("result is a Vector", T(isinstance(v, Arr) and v.cls == "Vector"))]
        anyna = z3.Or([m for m, _ in ref] or [T(False)])
        allna = z3.And([m for m, _ in ref] or [T(True)])
        explicit = self.dtype
        # (1) inferred dtype / representative of missing values
        if not explicit:
            if n == 0:
                pass
            elif k == "i":
                cl.append(("integers stay int64 without a missing value and widen to float64 with one",
                           z3.If(allna, T(v.dtype == "object"), z3.If(anyna, T(v.dtype == "float64"), T(v.dtype == "int64")))))
            elif k == "b":
                cl.append(("booleans stay bool without a missing value and become object with one",
                           z3.If(anyna, T(v.dtype == "object"), T(v.dtype == "bool"))))
            elif k == "O":
                cl.append(("objects give an object vector", T(v.dtype == "object")))
            elif k == "td":
                typed = z3.Or([z3.Not(m) for m, c in ref if c is not None] or [T(False)])
                cl.append(("np.timedelta64 elements give a timedelta64[us] vector (NaT for missing values)",
                           z3.If(typed, T(v.dtype == "timedelta64[us]"), T(v.dtype == "object"))))
            else:
                # float / str / date / datetime / timedelta: the dtype of the family whenever a typed element is present
                # an element contributes its type unless it is None / NaN ('' is a str and does contribute)
                typed = z3.Or([(T(True) if k == "T" else z3.Not(m)) for m, c in ref if c is not None] or [T(False)])
                if fam == "intfloat":
                    has_float = z3.Or([z3.Not(m) for i, (m, c) in enumerate(ref) if c is not None and i % 2 == 1] or [T(False)])
                    cl.append(("ints next to a float give float64", z3.Implies(has_float, T(v.dtype == "float64"))))
                    typed = None
                if typed is not None:
                    cl.append((f"inferred dtype is {KIND_DTYPE[k]} (object when every element is None/NaN)",
                               z3.If(typed, T(v.dtype == KIND_DTYPE[k]), T(v.dtype == "object"))))
        cl.append(("one element per input element", T(len(v) == n)))
        if len(v) != n: return cl
        vk = kind_of(v) if v.dtype != "object" else "O"
        # (2) is_na flags exactly the missing positions
        isn = out["is_na"]
        for i, (m, c) in enumerate(ref):
            cl.append((f"is_na[{i}] iff the element is None / NaN{' / empty string' if k == 'T' else ''}", isn.cells[i] == m))
        # (3) tolist returns the original values, None at missing positions
        tl = out["tolist"]
        for i, (m, c) in enumerate(ref):
            got = tl[i]
            if c is None:
                cl.append((f"tolist[{i}] is None for a missing element", T(got is None))); continue
            if got is None:
                cl.append((f"tolist[{i}] is None iff the element is missing", m)); continue
            if isinstance(c, Opaque) or fam == "obj":
                cl.append((f"tolist[{i}] is the original object", T(got == c))); continue
            if k in ("D", "us", "td"):
                want = c
                if isinstance(got, _dtm.datetime): g = BV((got - _dtm.datetime(1970, 1, 1)) // _dtm.timedelta(microseconds=1))
                elif isinstance(got, _dtm.date): g = BV((got - _dtm.date(1970, 1, 1)).days)
                elif isinstance(got, _dtm.timedelta): g = BV(got // _dtm.timedelta(microseconds=1))
                elif isinstance(got, (SymDT, SymTD)): g = got.e
                else: g = None
                cl.append((f"tolist[{i}] is the original value", (g == want) if g is not None else T(False)))
                continue
            gk = "b" if isinstance(got, (bool, SymBool)) else "T" if isinstance(got, (str, SymStr)) else \
                 "f" if isinstance(got, (SymF64, float)) else "i"
            g = as_cell(got, gk)
            if gk == k: eq = cell_ident(g, c, k) if k != "f" else z3.Or(z3.fpEQ(g, c), g == c)
            elif gk == "f" and k == "i": eq = g == symx.fp_of_bv(c)       # widened integer: numerically equal
            elif gk == "i" and k == "f": eq = symx.fp_of_bv(g) == c
            else: eq = T(False)
            cl.append((f"tolist[{i}] is the original value (or None iff missing)", z3.And(z3.Not(m), eq)))
        # (4) rebuild from tolist + dtype
        cl.append(("Vector(v.tolist(), v.dtype) equals v", T(out["rebuilt_equal"] is True)))
        cl.append(("equal is reflexive", T(out["self_equal"] is True)))
        # (6) na_dtype can hold na_value as missing
        if n:
            cl.append(("v.astype(v.na_dtype) can hold v.na_value as a missing value", T(out["na_dtype_holds_na"] is True)))
            cl.append(("a missing value put() into an already inspected vector is seen by is_na and tolist", T(out.get("put_na_seen") is True)))
            cl.append(("put() leaves the missing-ness of the other positions alone", T(all(out.get("put_others_kept", [])))))
        # (7) drop_na / replace_na touch exactly the missing positions
        dn = out["drop_na"]
        cnt = BV(0)
        for m, _ in ref: cnt = cnt + z3.If(m, BV(0), BV(1))
        cl.append(("drop_na keeps exactly the non-missing elements", cnt == BV(len(dn))))
        if "replace_na" in out and isinstance(out["replace_na"], Arr) and len(out["replace_na"]) == n:
            rn = out["replace_na"]; rk = kind_of(rn) if rn.dtype != "object" else "O"
            fill = as_cell(inp["fill"], "T" if k == "T" else "f")
            for i, (m, c) in enumerate(ref):
                if rk == "O": continue
                if rk == vk:
                    cl.append((f"replace_na leaves non-missing element {i} alone", z3.Implies(z3.Not(m), cell_ident(rn.cells[i], v.cells[i], vk))))
                    if rk in ("f", "T"):
                        cl.append((f"replace_na replaces missing element {i}", z3.Implies(m, cell_ident(rn.cells[i], fill, rk))))
        return cl

class Equal(Harness):
    prop = "C10"; opname = "vec_equal"
    goals = ["vector.py:Vector.equal"]
    def __init__(self, kinds, maxn):
        self.kinds = kinds; self.maxn = maxn
        self.name = f"C10.equal.{'+'.join(kinds)}.n{maxn}"
        self.bounds = {"three vectors of length": f"0..{maxn}", "dtypes": [KIND_DTYPE[k] for k in kinds]}
        self.symbolic = ["all elements of the three vectors"]; self.choice_dims = ["lengths"]
    def build(self, ctx):
        n = choice("n", range(self.maxn + 1))
        m = choice("m", [n, n + 1] if n < self.maxn else [n])
        ka, kb, kc = self.kinds
        return {"a": mk_col(ka, n, "a", "Vector"), "b": mk_col(kb, n, "b", "Vector"), "c": mk_col(kc, m, "c", "Vector")}
    def regions(self, inp):
        # known finding: int64 and float64 vectors are compared with NumPy's ==, i.e. after converting the integers to
        # float64; integers beyond 2**53 that round to the same float make equal() intransitive
        if set(self.kinds) != {"i", "f"}: return {}
        big = [z3.Or(c > 2**53, c < -2**53) for v in (inp["a"], inp["b"], inp["c"]) if kind_of(v) == "i" for c in v.cells]
        return {"equal-int64-float64-beyond-2**53": z3.Or(big) if big else T(False)}
    def spec(self, inp, out):
        if isinstance(out, Raised): return [(f"does not raise ({out.type}: {out.msg[:60]})", T(False))]
        cl = [("reflexive", T(out["aa"] is True)), ("symmetric", T(out["ab"] == out["ba"])),
              ("transitive", T(not (out["ab"] and out["bc"]) or out["ac"]))]
        # equal means: same length, same missing positions, == elsewhere
        a, b = inp["a"], inp["b"]
        if kind_of(a) == kind_of(b) and len(a) == len(b):
            k = kind_of(a)
            want = z3.And([same_key(x, y, k) for x, y in zip(a.cells, b.cells)] or [T(True)])
            cl.append(("equal(a, b) iff missing positions agree and the other elements are ==", want == T(out["ab"])))
        return cl

def harnesses(tier):
    q = tier == "quick"
    hs = []
    fams = ["int", "float", "bool", "str", "date", "datetime", "td", "npfloat", "obj", "intfloat", "npint"]
    for f in fams:
        hs.append(Build(f, 2 if q else 3))
    for f, d in (("int", "float"), ("float", "float"), ("str", "str"), ("int", "int"), ("bool", "object"), ("int", "object")):
        hs.append(Build(f, 2, d))
    for f, d in (("str", "str"), ("float", "float"), ("int", "float")):
        hs.append(Build(f, 2, d, source="objarray"))
    for f, d, src in (("str", None, "iter"), ("float", None, "iter"), ("int", "float", "iter"), ("str", "str", "tuple"), ("obj", None, "tuple")):
        hs.append(Build(f, 2, d, source=src))
    for ks in [["f", "f", "f"], ["T", "T", "T"], ["i", "i", "i"], ["i", "f", "i"]] + ([] if q else [["D", "D", "D"], ["b", "b", "b"], ["f", "i", "f"], ["td", "td", "td"]]):
        hs.append(Equal(ks, 2))
    return hs
