"""C18 — GeoJSON read/write is faithful to the feature collection."""
import z3

from .. import symx
from ..run import Harness
from ..symx import choice, SymPyInt, SymPyFloat, SymPyBool, SymStr, SymBool, SymF64, SymI64
from ..tree import Arr, Frame, Raised
from .common import BV, T, as_cell, isna, kind_of, mk_col, KIND_DTYPE
from .c15 import v_ident

POINT = {"type": "Point", "coordinates": [1, 2]}

def jvalue(ctx, kind, tag):
    if kind == "int": return SymPyInt(symx.sym_int_range(tag, -2**53, 2**53))
    if kind == "float":
        v = symx.sym_f64(tag); ctx.assume(z3.Not(z3.fpIsNaN(v)), note="JSON numbers are not NaN"); ctx.assume(z3.Not(z3.fpIsInf(v)))
        return SymPyFloat(v)
    if kind == "bool": return SymPyBool(symx.sym_bool(tag))
    if kind == "str": return choice(tag + "_s", ["x", ""])
    raise ValueError(kind)

def json_same(a, b):
    """z3 Bool: JSON values a and b are the same value (numbers compared numerically, structures recursively)"""
    if a is None or b is None: return T(a is None and b is None)
    if isinstance(a, (bool, SymBool)) or isinstance(b, (bool, SymBool)):
        if not (isinstance(a, (bool, SymBool)) and isinstance(b, (bool, SymBool))): return T(False)
        return as_cell(a, "b") == as_cell(b, "b")
    if isinstance(a, (str, SymStr)) or isinstance(b, (str, SymStr)):
        if not (isinstance(a, (str, SymStr)) and isinstance(b, (str, SymStr))): return T(False)
        if not isinstance(a, SymStr) and not isinstance(b, SymStr): return T(str(a) == str(b))
        try:
            ca, cb = symx.tocell(a), symx.tocell(b)
        except symx.ModelGap:
            return T(False)         # a literal outside the bounded domain cannot equal a bounded symbolic string
        return ca.eq(cb)
    if isinstance(a, (list, tuple)) and isinstance(b, (list, tuple)):
        return z3.And([T(len(a) == len(b))] + [json_same(x, y) for x, y in zip(a, b)])
    if isinstance(a, dict) and isinstance(b, dict):
        if len(a) != len(b): return T(False)
        cl = []
        for k, v in a.items():
            hit = [bk for bk in b if z3.is_true(z3.simplify(json_same(k, bk)))] if not isinstance(k, str) or isinstance(k, SymStr) else [k] if k in b else []
            if not hit: return T(False)
            cl.append(json_same(v, b[hit[0]]))
        return z3.And(cl) if cl else T(True)
    fa = isinstance(a, (SymF64, float)) and not isinstance(a, SymI64)
    fb = isinstance(b, (SymF64, float)) and not isinstance(b, SymI64)
    if isinstance(a, (int, SymI64, SymF64, float)) and isinstance(b, (int, SymI64, SymF64, float)):
        if fa or fb: return z3.fpEQ(as_cell(a, "f"), as_cell(b, "f"))
        return as_cell(a, "i") == as_cell(b, "i")
    return T(False)

class Read(Harness):
    prop = "C18"; opname = "geo_read"
    goals = ["geojson.py:GeoJSON.read", "geojson.py:GeoJSON._check_raw_feature"]
    def __init__(self, maxn, slim=False):
        self.maxn = maxn; self.slim = slim; self.name = f"C18.read.n{maxn}" + (".slim" if slim else "")
        self.bounds = {"features": f"0..{maxn}" if not slim else str(maxn), "property keys": "ragged subsets of p (int), q (float), s (str), t (bool), geometry"
                       if not slim else "each feature has p and q, p alone, or nothing (a key can be present, absent, present again)",
                       "geometry": "null or a Point object", "extra top-level members": "from {name, crs, items}"}
        self.symbolic = ["property values"]; self.choice_dims = ["feature shapes", "null pattern", "extra members"]
    def build(self, ctx):
        n = choice("n", range(self.maxn + 1)) if not self.slim else self.maxn
        kinds = {"p": "int", "q": "float", "s": "str", "t": "bool", "geometry": "int"}
        feats = []
        for i in range(n):
            props = {}
            for k in choice(f"keys{i}", [("p", "q"), ("s", "p"), ("t",), ("q", "geometry"), ()] if not self.slim else [("p", "q"), ("p",), ()]):
                props[k] = None if (not self.slim and choice(f"null{i}{k}", [False, True])) else jvalue(ctx, kinds[k], f"v{i}{k}")
            feats.append({"type": "Feature", "properties": props, "geometry": None if (self.slim or choice(f"g{i}", [False, True])) else dict(POINT)})
        coll = {"type": "FeatureCollection"}
        extra = choice("extra", [(), ("name",), ("crs", "items"), ("e", "feat", "")]) if not self.slim else ()
        for k in extra:
            # member names are arbitrary strings: also fragments of "features" and the empty name
            coll[k] = {"name": "layer", "crs": {"type": "name", "properties": {"name": "EPSG:4326"}}, "items": [1, 2], "e": 1, "feat": [2], "": "empty"}[k]
        coll["features"] = feats
        return {"collection": coll}
    def regions(self, inp):
        feats = inp["collection"]["features"]
        return {"property-named-geometry": T(any("geometry" in f["properties"] for f in feats))}
    def spec(self, inp, out):
        if isinstance(out, Raised): return [(f"does not raise ({out.type}: {out.msg[:80]})", T(False))]
        coll = inp["collection"]; feats = coll["features"]; n = len(feats)
        res = out["out"]
        cl = [("result is a GeoJSON frame", T(isinstance(res, Frame) and res.cls == "GeoJSON"))]
        if not isinstance(res, Frame): return cl
        keys = list(dict.fromkeys(k for f in feats for k in f["properties"]))
        cl.append((f"one column per property key occurring in any feature, plus geometry", T(set(res.names) == set(keys) | {"geometry"})))
        for nm in res.names:
            cl.append((f"column {nm}: one row per feature", T(len(res.cols[nm]) == n)))
        if any(len(res.cols[nm]) != n for nm in res.names) or set(res.names) != set(keys) | {"geometry"}: return cl
        for i, f in enumerate(feats):
            g = res.cols["geometry"].cells[i] if res.cols["geometry"].dtype == "object" else None
            if "geometry" not in f["properties"]:
                cl.append((f"feature {i}: geometry object unchanged", json_same(g, f["geometry"]) if res.cols["geometry"].dtype == "object" else T(False)))
            for k in keys:
                if k == "geometry": 
                    cl.append((f"feature {i}: property named geometry has its own value", T(False) if "geometry" in f["properties"] else T(True)))
                    continue
                col = res.cols[k]; kk = kind_of(col) if col.dtype != "object" else "O"
                cell = col.cells[i]
                want = f["properties"].get(k)
                if want is None:
                    miss = T(cell is None) if kk == "O" else isna(cell, kk)
                    cl.append((f"feature {i}: {k} missing where the feature lacks it / has null", miss))
                else:
                    got = cell if kk == "O" else (SymF64(cell) if kk == "f" else SymI64(cell) if kk == "i" else SymBool(cell) if kk == "b" else SymStr(cell) if not isinstance(cell, str) else cell)
                    if isinstance(want, str) and want == "":
                        cl.append((f"feature {i}: {k} empty string", json_same(got, want)))     # '' reads as the missing string
                    else:
                        cl.append((f"feature {i}: value of {k}", json_same(got, want)))
        meta = res.attrs.get("metadata", {})
        want_meta = {k: v for k, v in coll.items() if k != "features"}
        cl.append(("metadata holds all other top-level members", json_same(meta, want_meta)))
        return cl

class Write(Harness):
    prop = "C18"; opname = "geo_write"
    goals = ["geojson.py:GeoJSON.write"]
    def __init__(self, maxn):
        self.maxn = maxn; self.name = f"C18.write.n{maxn}"
        self.bounds = {"rows": f"0..{maxn}", "columns": "p (int64 or float64 with missing values), geometry (null or Point)",
                       "metadata members": "0..2 with an arbitrary name (bounded symbolic string) and JSON values", "indent": "default, 0, 4"}
        self.symbolic = ["cells", "one metadata member name (code points unrestricted)"]; self.choice_dims = ["nrow", "dtype", "null geometry", "indent"]
    def build(self, ctx):
        n = choice("n", range(self.maxn + 1))
        k = choice("dtype", ["i", "f", "none"])        # none: no property column at all (every feature has "properties": {})
        geom = Arr("object", [None if choice(f"g{i}", [False, True]) else dict(POINT) for i in range(n)])
        data = Frame({"p": mk_col(k, n, "p"), "geometry": geom} if k != "none" else {"geometry": geom}, cls="GeoJSON")
        if k == "f":
            for c in data.cols["p"].cells: ctx.assume(z3.Not(z3.fpIsInf(c)))
        meta = []
        nm = choice("nmeta", [0, 1, 2])
        if nm >= 1: meta.append([SymStr(symx.sym_str("name", allow_tail=False)), {"a": [1, None]}])
        if nm >= 2: meta.append(["plain", "text"])
        return {"data": data, "metadata": meta, "indent": choice("indent", [None, 0, 4])}
    def spec(self, inp, out):
        if isinstance(out, Raised): return [(f"does not raise ({out.type}: {out.msg[:80]})", T(False))]
        cl = [(f"written text is valid JSON ({out.get('error')})", T(out["parsed"] is not None))]
        for r in out.get("raw_names") or []:
            c = symx.tocell(r)
            ok = z3.And([z3.Or(z3.ULE(c.n, j), z3.And(c.ch[j] != 0x22, c.ch[j] != 0x5C, z3.UGE(c.ch[j], 0x20))) for j in range(len(c.ch))])
            cl.append(("a member name inserted verbatim between quotes is a valid JSON string literal for every name", ok))
        if out["parsed"] is None: return cl
        P = out["parsed"]
        data = inp["data"]; n = len(data.cols["geometry"]); k = kind_of(data.cols["p"]) if "p" in data.cols else "none"
        cl.append(("top level is a FeatureCollection object with features", T(isinstance(P, dict) and P.get("type") == "FeatureCollection" and isinstance(P.get("features"), list))))
        if not (isinstance(P, dict) and isinstance(P.get("features"), list)): return cl
        cl.append(("same number of features", T(len(P["features"]) == n)))
        for i, f in enumerate(P["features"][:n]):
            ok = isinstance(f, dict) and f.get("type") == "Feature" and isinstance(f.get("properties"), dict) and "geometry" in f
            cl.append((f"feature {i} is a Feature with properties and geometry", T(ok)))
            if not ok: continue
            cl.append((f"feature {i}: geometry unchanged", json_same(f["geometry"], data.cols["geometry"].cells[i])))
            if k == "none":
                cl.append((f"feature {i}: no properties", T(f["properties"] == {})))
                continue
            cell = data.cols["p"].cells[i]
            got = f["properties"].get("p")
            if k == "f":
                cl.append((f"feature {i}: property p (absent or null iff missing)", z3.If(z3.fpIsNaN(cell), T(got is None), json_same(got, SymF64(cell)) if got is not None else T(False))))
            else:
                cl.append((f"feature {i}: property p", json_same(got, SymI64(cell)) if got is not None else T(False)))
        want_meta = {"type": "FeatureCollection"}
        for key, v in inp["metadata"]: want_meta[key] = v
        got_meta = {kk: v for kk, v in P.items() if not (isinstance(kk, str) and not isinstance(kk, SymStr) and kk == "features")}
        cl.append(("all metadata members written with their names and values", json_same(got_meta, want_meta)))
        return cl

class RoundTrip(Harness):
    prop = "C18"; opname = "geo_roundtrip"
    goals = ["geojson.py:GeoJSON.write", "geojson.py:GeoJSON.read"]
    def __init__(self, maxn):
        self.maxn = maxn; self.name = f"C18.roundtrip.n{maxn}"
        self.bounds = {"rows": f"1..{maxn}", "columns": "p (int64), q (float64 with missing values, possibly all missing), s (string with missing values), geometry"}
        self.symbolic = ["cells"]; self.choice_dims = ["nrow", "null geometry"]
    def build(self, ctx):
        n = choice("n", range(1, self.maxn + 1))
        from .common import mk_col
        cols = {"p": mk_col("i", n, "p"), "q": mk_col("f", n, "q"), "s": mk_col("T", n, "s"),
                "geometry": Arr("object", [None if choice(f"g{i}", [False, True]) else dict(POINT) for i in range(n)])}
        for c in cols["q"].cells: ctx.assume(z3.Not(z3.fpIsInf(c)))
        for c in cols["p"].cells: ctx.assume(z3.And(c >= -2**53, c <= 2**53))
        return {"data": Frame(cols, cls="GeoJSON"), "metadata": [["name", "layer"]]}
    def spec(self, inp, out):
        if isinstance(out, Raised): return [(f"does not raise ({out.type}: {out.msg[:80]})", T(False))]
        from .c13 import same_frame_clauses
        data = inp["data"]; back = out["back"]
        cl = [("re-read object is a GeoJSON frame", T(isinstance(back, Frame) and back.cls == "GeoJSON"))]
        if not isinstance(back, Frame): return cl
        cl.append(("same columns after writing and re-reading", T(back.names == data.names)))
        if back.names != data.names: return cl
        a = Frame({k: v for k, v in data.cols.items() if k != "geometry"}); b = Frame({k: v for k, v in back.cols.items() if k != "geometry"})
        cl += same_frame_clauses(a, b, "re-read", ())
        for i, (x, y) in enumerate(zip(data.cols["geometry"].cells, back.cols["geometry"].cells)):
            cl.append((f"geometry {i} unchanged", json_same(x, y)))
        cl.append(("metadata equal", json_same(back.attrs.get("metadata", {}), {"type": "FeatureCollection", "name": "layer"})))
        return cl

def harnesses(tier):
    n = 2 if tier == "quick" else 3
    return [Read(n), Write(n), RoundTrip(n)] + ([Read(3, slim=True)] if tier == "quick" else [Read(4, slim=True)])
