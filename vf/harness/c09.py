"""C09 — combining and reshaping columns preserves every untouched value."""
import itertools

import z3

from .. import symx
from ..run import Harness
from ..symx import choice, SymBool, SymF64, SymI64
from ..tree import Arr, Frame, Raised
from .common import (as_cell, BV, T, cell_ident, isna, kind_of, mk_col, scalar_of, sym_cell, KIND_DTYPE)

POOL = ["a", "b", "c"]
NA_KIND = {"f": "f", "i": "f", "b": "O", "T": "T", "D": "D", "us": "us", "U": "U", "O": "O", "td": "td"}

def promoted_equal(out_cell, out_kind, in_cell, in_kind):
    """the stored input value after NumPy promotion to the result dtype"""
    if out_kind == in_kind:
        return cell_ident(out_cell, in_cell, in_kind)
    if out_kind in ("T", "U") and in_kind in ("T", "U"):
        return cell_ident(out_cell, in_cell, "T")
    if out_kind == "f" and in_kind == "i":
        return out_cell == symx.fp_of_bv(in_cell)
    if out_kind == "us" and in_kind == "D":
        # a date in a datetime column: midnight of that day (NaT stays NaT); years 1..9999 do not overflow
        return out_cell == z3.If(in_cell == symx.INT64_MIN, BV(symx.INT64_MIN), in_cell * BV(86400 * 10**6))
    if out_kind == "f" and in_kind == "b":
        return out_cell == z3.If(in_cell, symx.fpval(1.0), symx.fpval(0.0))
    if out_kind == "i" and in_kind == "b":
        return out_cell == z3.If(in_cell, BV(1), BV(0))
    if out_kind == "O":
        if in_kind == "b":
            if isinstance(out_cell, SymBool): return out_cell.e == in_cell
            if isinstance(out_cell, bool): return in_cell == z3.BoolVal(out_cell)
            return T(False)
        if in_kind == "f":
            return out_cell.e == in_cell if isinstance(out_cell, SymF64) else T(False)
        if in_kind == "i":
            if isinstance(out_cell, SymI64): return out_cell.e == in_cell
            if isinstance(out_cell, int) and not isinstance(out_cell, bool): return in_cell == BV(out_cell)
            return T(False)
    return T(False)

def obj_isna(c):
    return T(c is None)

def frame_of(ctx, tag, names, kinds, n):
    cols = {}
    for nm in names:
        cols[nm] = mk_col(kinds[nm], n, f"{tag}{nm}")
    return Frame(cols)

class Reshape(Harness):
    prop = "C09"
    opname = "df_reshape"
    def __init__(self, method, kinds, maxn, variant=""):
        self.method = method; self.kinds = kinds; self.maxn = maxn; self.variant = variant
        self.name = f"C09.{method}{'.' + variant if variant else ''}.{'+'.join(kinds)}.n{maxn}"
        self.bounds = {"rows per frame": f"0..{maxn}", "column pool": POOL, "dtypes of pool columns": [KIND_DTYPE[k] for k in kinds]}
        self.symbolic = ["all cells", "modify values"]
        self.choice_dims = ["row counts", "which pool columns each frame has", "name subsets / orders / rename maps"]
        self.goals = ["data_frame.py:DataFrame." + ("colnames" if method == "colnames" else method)]
    def build(self, ctx):
        kinds = dict(zip(POOL, self.kinds))
        m = self.method
        n = choice("n", range(self.maxn + 1))
        subsets = [s for r in (1, 2, 3) for s in itertools.combinations(POOL, r)]
        if m in ("select", "unselect", "rename", "colnames", "modify"):
            names = list(choice("cols", [("a", "b", "c"), ("a", "b"), ("b",)]))
        else:
            names = list(choice("cols", subsets))
        data = frame_of(ctx, "s", names, kinds, n)
        inp = {"data": data, "method": m}
        if m == "rbind":
            k = choice("n_others", [1, 2]) if self.variant not in ("one", "mixedstr", "mixeddt") else 2 if self.variant == "mixeddt" else 1
            others = []
            for j in range(k):
                on = list(choice(f"ocols{j}", [("a",), ("b", "a"), ("c",), ("b", "c"), ("a", "b", "c")]))
                nn = choice(f"on{j}", range(self.maxn + 1))
                okinds = kinds
                if self.variant == "mixedstr":
                    # the same column as a fixed-width <U array in one frame and a variable-width string in another
                    okinds = {k: {"U": "T", "T": "U"}.get(v, v) for k, v in kinds.items()}
                if self.variant == "mixeddt" and j == 1:
                    # the same column with a wider dtype in a later frame: dates then datetimes, integers then floats
                    okinds = {k: {"D": "us", "i": "f"}.get(v, v) for k, v in kinds.items()}
                others.append(frame_of(ctx, f"o{j}", on, okinds, nn))
            inp["others"] = others
        elif m in ("cbind", "update"):
            on = list(choice("ocols", [("a",), ("b", "a"), ("c",), ("c", "b")]))
            nn = choice("on", [n, 1] if n > 1 else [n])     # a one-row frame is broadcast (only to nrow >= 1)
            inp["others"] = [frame_of(ctx, "o", on, kinds, nn)]
            if m == "cbind" and choice("second_other", [False, True]):
                on2 = list(choice("ocols2", [("c", "a"), ("b",), ("c",)]))
                inp["others"].append(frame_of(ctx, "p", on2, kinds, n))
        elif m == "modify":
            vals = []
            for nm in choice("targets", [("a",), ("z",), ("b", "z"), ("z", "a")]):
                if nm != "z" and nm not in names: nm = names[0]
                k = kinds.get(nm, "f")
                how = choice(f"how_{nm}", (["scalar", "vector", "callable"] if n >= 1 else ["vector", "callable"]) + ["existing", "existing_view"])
                if how in ("existing", "existing_view"):
                    vals.append([nm, how, names[-1]])          # a callable that returns a column of the frame (or a view of it)
                elif how == "scalar" and k == "O":
                    vals.append([nm, how, symx.SymPyInt(symx.sym_i64(f"v{nm}"))])        # an object column of Python ints: a Python int
                elif how == "scalar":
                    c = sym_cell(k, f"v{nm}")
                    ctx.assume(z3.Not(isna(c, k)), note="modify: scalar values are not missing (dtype inference of a lone "
                               "missing scalar belongs to C10) and the frame has >= 1 row when a scalar is broadcast")
                    vals.append([nm, how, scalar_of(c, k)])
                else:
                    vals.append([nm, how, mk_col(k, n, f"v{nm}")])
            inp["values"] = vals
        elif m in ("select", "unselect"):
            perms = [p for r in range(0, len(names) + 1) for p in itertools.permutations(names, r)]
            inp["names"] = list(choice("names", perms))
        elif m == "rename":
            # to<-from maps, including permutations of existing names
            cands = [[("x", names[0])]]
            if len(names) >= 2:
                cands += [[(names[1], names[0]), (names[0], names[1])], [("x", names[1]), ("y", names[0])]]
            if len(names) >= 3:
                cands += [[(names[1], names[0]), (names[2], names[1]), (names[0], names[2])]]
            inp["pairs"] = [list(p) for p in choice("pairs", cands)]
        elif m == "colnames":
            cands = [tuple("xyz"[:len(names)])] + [p for p in itertools.permutations(names) if list(p) != names]
            cands += [tuple(["x"] + names[1:])] if len(names) > 1 else []
            inp["names"] = list(choice("new", cands))
            inp["names_form"] = choice("names_form", ["list", "tuple", "iter"])
        return inp
    def regions(self, inp):
        return {}
    def spec(self, inp, out):
        if isinstance(out, Raised):
            return [(f"does not raise ({out.type}: {out.msg[:60]})", T(False))]
        data = inp["data"]; res = out["out"]; m = self.method
        cl = [("result is a DataFrame", T(isinstance(res, Frame)))]
        if not isinstance(res, Frame): return cl
        n = len(next(iter(data.cols.values()))) if data.cols else 0
        def same_col(oc, ic, label):
            cl.append((f"{label}: dtype unchanged", T(oc.dtype == ic.dtype)))
            cl.append((f"{label}: length unchanged", T(len(oc) == len(ic))))
            if oc.dtype == ic.dtype and len(oc) == len(ic):
                for r in range(len(ic)):
                    cl.append((f"{label}: row {r} unchanged", cell_ident(oc.cells[r], ic.cells[r], kind_of(ic))))
        if m == "rbind":
            frames = [data] + inp["others"]
            want = list(dict.fromkeys(nm for f in frames for nm in f.names))
            cl.append((f"columns are the union in first-seen order {want}", T(res.names == want)))
            if res.names != want: return cl
            sizes = [len(next(iter(f.cols.values()))) for f in frames]
            total = sum(sizes)
            for nm in want:
                oc = res.cols[nm]
                cl.append((f"{nm}: row count is the sum", T(len(oc) == total)))
                if len(oc) != total: continue
                ref = next(f.cols[nm] for f in frames if nm in f.cols)
                ik = kind_of(ref)
                absent = any(nm not in f.cols for f in frames)
                wantk = NA_KIND[ik] if absent else ik
                kk = {kind_of(f.cols[nm]) for f in frames if nm in f.cols}
                if kk == {"T", "U"}: wantk = "T"          # fixed-width and variable-width strings together: variable width
                if kk == {"D", "us"}: wantk = "us"        # dates and datetimes together: datetimes
                if kk == {"i", "f"}: wantk = "f"
                # a 0-row operand still takes part in NumPy's dtype promotion
                cl.append((f"{nm}: result dtype able to hold the values{' and missing values' if absent else ''}",
                           T(oc.dtype == KIND_DTYPE[wantk])))
                if oc.dtype != KIND_DTYPE[wantk]: continue
                ok = kind_of(oc)
                off = 0
                for f, sz in zip(frames, sizes):
                    for r in range(sz):
                        if nm in f.cols:
                            cl.append((f"{nm}: operand row recoverable at offset {off + r}",
                                       promoted_equal(oc.cells[off + r], ok, f.cols[nm].cells[r], kind_of(f.cols[nm]))))
                        else:
                            cl.append((f"{nm}: missing value where the operand lacks the column (row {off + r})",
                                       obj_isna(oc.cells[off + r]) if ok == "O" else isna(oc.cells[off + r], ok)))
                    off += sz
        elif m in ("cbind", "update"):
            frames = [data] + inp["others"]
            if m == "cbind":
                want = list(dict.fromkeys(x for f in frames for x in f.names))
                owner = {nm: next(f for f in frames if nm in f.cols) for nm in want}       # first of duplicate names
            else:
                other = inp["others"][0]
                want = [x for x in data.names if x not in other.names] + other.names
                owner = {nm: (other if nm in other.cols else data) for nm in want}
            cl.append((f"columns are {want}", T(res.names == want)))
            if res.names != want: return cl
            for nm in want:
                src = owner[nm]
                ic = src.cols[nm]; oc = res.cols[nm]
                on = len(ic)
                if src is not data and on == 1 and n != 1:
                    cl.append((f"{nm}: one-row frame broadcast to nrow", T(len(oc) == n and oc.dtype == ic.dtype)))
                    if len(oc) == n and oc.dtype == ic.dtype:
                        for r in range(n):
                            cl.append((f"{nm}: broadcast value at row {r}", cell_ident(oc.cells[r], ic.cells[0], kind_of(ic))))
                else:
                    same_col(oc, ic, nm)
        elif m == "modify":
            vals = inp["values"]
            last = {}
            for nm, how, v in vals: last[nm] = (how, v)
            want = data.names + [nm for nm in last if nm not in data.names]
            cl.append((f"columns are {want}", T(res.names == want)))
            if res.names != want: return cl
            for nm in want:
                oc = res.cols[nm]
                if nm in last:
                    how, v = last[nm]
                    if how == "scalar":
                        kinds = dict(zip(POOL, self.kinds)); k = kinds.get(nm, "f")
                        if k == "O": k = "i"          # the scalar given for an object column is a Python int: a new int64 column
                        vc = as_cell(v, k)
                        cl.append((f"{nm}: scalar broadcast to nrow", T(len(oc) == n and oc.dtype == KIND_DTYPE[k])))
                        if len(oc) == n and oc.dtype == KIND_DTYPE[k]:
                            for r in range(n):
                                cl.append((f"{nm}: scalar value at row {r}", cell_ident(oc.cells[r], vc, k)))
                    elif how in ("existing", "existing_view"):
                        same_col(oc, data.cols[v], f"{nm} (= {v} of the receiver)")
                    else:
                        same_col(oc, v, nm)
                else:
                    same_col(oc, data.cols[nm], nm)
        elif m in ("select", "unselect"):
            want = inp["names"] if m == "select" else [x for x in data.names if x not in inp["names"]]
            cl.append((f"columns are {want}", T(res.names == list(want))))
            if res.names != list(want): return cl
            for nm in want: same_col(res.cols[nm], data.cols[nm], nm)
        elif m == "rename":
            fm_to = {fm: to for to, fm in inp["pairs"]}
            want = [fm_to.get(x, x) for x in data.names]
            cl.append((f"columns are {want}", T(res.names == want)))
            if res.names != want: return cl
            for old, new in zip(data.names, want): same_col(res.cols[new], data.cols[old], f"{old}->{new}")
        elif m == "colnames":
            new = inp["names"]
            cl.append((f"columns are renamed positionally to {new}", T(sorted(res.names) == sorted(new) and len(res.names) == len(data.names))))
            if not (sorted(res.names) == sorted(new) and len(res.names) == len(data.names)): return cl
            for old, nw in zip(data.names, new): same_col(res.cols[nw], data.cols[old], f"{old}->{nw}")
        return cl

def harnesses(tier):
    hs = []
    if tier == "quick":
        for m in ("rbind", "cbind", "update", "modify", "select", "unselect", "rename", "colnames"):
            hs.append(Reshape(m, ["f", "i", "T"], 2, "one" if m == "rbind" else ""))
        hs.append(Reshape("rbind", ["b", "f", "i"], 1, "one"))
        hs.append(Reshape("rbind", ["td", "us", "T"], 1, "one"))
        hs.append(Reshape("rbind", ["U", "f", "T"], 1, "mixedstr"))
        hs.append(Reshape("rbind", ["D", "i", "T"], 1, "mixeddt"))
        hs.append(Reshape("update", ["td", "f", "i"], 2))
    else:
        for kinds in (["f", "i", "T"], ["b", "D", "U"], ["i", "O", "us"], ["td", "f", "T"]):
            for m in ("rbind", "cbind", "update", "modify", "select", "unselect", "rename", "colnames"):
                hs.append(Reshape(m, kinds, 2))
        hs.append(Reshape("rbind", ["f", "i", "b"], 3, "one"))
        hs.append(Reshape("rbind", ["D", "i", "T"], 2, "mixeddt"))
        hs.append(Reshape("rbind", ["U", "f", "T"], 2, "mixedstr")); hs.append(Reshape("rbind", ["T", "U", "i"], 2, "mixedstr"))
    return hs
