"""C19 — dt and regex functions act element-wise like datetime and re."""
import re as _re

import z3

from .. import symx, symdt
from ..run import Harness
from ..symx import choice, SymI64, SymF64, SymStr, SymDT, INT64_MIN
from ..tree import Arr, Raised
from .common import BV, T, as_cell, isna, kind_of, mk_col, KIND_DTYPE

EXTRACTORS = ["year", "month", "day", "hour", "minute", "second", "microsecond", "weekday", "isoweekday", "isoweek", "quarter"]
TIME_OF_DAY = ("hour", "minute", "second", "microsecond")

def num_of(cell, kind):
    """BitVec64 value of a result cell that holds an integer (int64 cell, or float64 cell with an integral value)"""
    if kind == "i": return cell, T(True)
    if kind == "f":
        return z3.fpToSBV(z3.RTZ(), cell, z3.BitVecSort(64)), z3.fpEQ(z3.fpRoundToIntegral(z3.RTZ(), cell), cell)
    return None, T(False)

class DtExtract(Harness):
    prop = "C19"; opname = "dt_op"
    def __init__(self, fn, unit, maxn):
        self.fn = fn; self.unit = unit; self.maxn = maxn
        self.name = f"C19.dt.{fn}.{unit}.n{maxn}"
        self.bounds = {"elements": f"0..{maxn}", "unit": unit, "calling forms": "module function, .dt proxy, scalar, .dt proxy of a reversed view after the proxy of the vector itself was used, .dt proxy used again after the vector was overwritten in place"}
        self.symbolic = ["ticks (years 1..9999) and NaT positions"]; self.choice_dims = ["length", "calling form"]
        self.goals = [f"dt.py:{fn}", "dt.py:_pull_int"]
    def build(self, ctx):
        form = choice("form", ["module", "proxy", "scalar", "proxy_derived", "proxy_after_edit"])
        n = choice("n", range(self.maxn + 1)) if form != "scalar" else 1
        x = mk_col(self.unit, n, "x", cls="Vector")
        inp = {"x": x, "fn": self.fn}
        if form == "proxy": inp["proxy"] = True
        if form == "proxy_derived": inp["proxy"] = "derived"
        if form == "proxy_after_edit":
            # x is what the vector holds when the proxy is used the second time; before, it held other values
            inp["proxy"] = "after_edit"; inp["before"] = mk_col(self.unit, n, "w", cls="Vector")
        if form == "scalar":
            inp["scalar"] = True
            ctx.assume(x.cells[0] != INT64_MIN, note="scalar form: a non-missing datetime scalar")
        return inp
    def want(self, tick):
        if self.fn == "quarter":
            m = symdt.uf_bv("month", [tick], self.unit)
            return z3.If(m <= 3, BV(1), z3.If(m <= 6, BV(2), z3.If(m <= 9, BV(3), BV(4))))
        return symdt.uf_bv(self.fn, [tick], self.unit)
    def spec(self, inp, out):
        if isinstance(out, Raised): return [(f"does not raise ({out.type}: {out.msg[:80]})", T(False))]
        x = inp["x"]; n = len(x); res = out["out"]
        cl = []
        if inp.get("scalar"):
            got = res
            e = got.e if isinstance(got, (SymI64, SymF64)) else BV(got) if isinstance(got, int) else None
            if isinstance(got, SymF64): v, ok = num_of(got.e, "f")
            else: v, ok = (e, T(True)) if e is not None else (None, T(False))
            return [("scalar call gives the element's value", z3.And(ok, v == self.want(x.cells[0])) if v is not None else T(False))]
        cl.append(("result is a Vector with one element per input element", T(isinstance(res, Arr) and res.cls == "Vector" and len(res) == n)))
        if not isinstance(res, Arr) or len(res) != n: return cl
        k = kind_of(res)
        if inp.get("proxy") == "derived":
            x = Arr(x.dtype, list(reversed(x.cells)), x.cls)       # the proxy of the reversed view answers for the reversed view
        for i in range(n):
            nat = x.cells[i] == INT64_MIN
            v, ok = num_of(res.cells[i], k)
            miss = isna(res.cells[i], k)
            cl.append((f"element {i}: missing exactly at NaT", miss == nat))
            if v is not None:
                cl.append((f"element {i}: what datetime gives for that element", z3.Or(nat, z3.And(ok, v == self.want(x.cells[i])))))
            else:
                cl.append((f"element {i}: numeric result", T(False)))
        return cl

class DtReplace(Harness):
    prop = "C19"; opname = "dt_op"
    goals = ["dt.py:replace"]
    def __init__(self, unit, maxn):
        self.unit = unit; self.maxn = maxn
        self.name = f"C19.dt.replace.{unit}.n{maxn}"
        self.bounds = {"elements": f"0..{maxn}", "unit": unit, "components": "month and/or day (and hour for datetimes), each scalar or vector"}
        self.symbolic = ["ticks, NaT positions, component values (in their calendar ranges)"]
        self.choice_dims = ["length", "which components, scalar or vector"]
    def build(self, ctx):
        n = choice("n", range(self.maxn + 1))
        x = mk_col(self.unit, n, "x", cls="Vector")
        kwargs = []
        comps = choice("comps", [("day",), ("month", "day"), ("day", "hour")] if self.unit != "D" else [("day",), ("month", "day")])
        for cname in comps:
            lo, hi = symdt.RANGES[cname]
            if choice(f"{cname}_vector", [False, True]):
                kwargs.append([cname, Arr("int64", [symx.sym_int_range(f"{cname}{i}", lo, hi) for i in range(n)])])
            else:
                kwargs.append([cname, SymI64(symx.sym_int_range(cname, lo, hi))])
        return {"x": x, "fn": "replace", "kwargs": kwargs, "proxy": choice("proxy", [False, True])}
    def spec(self, inp, out):
        if isinstance(out, Raised): return [(f"does not raise ({out.type}: {out.msg[:80]})", T(False))]
        x = inp["x"]; n = len(x); res = out["out"]
        cl = [("result is a datetime Vector with one element per input element", T(isinstance(res, Arr) and len(res) == n and res.dtype == x.dtype))]
        if not isinstance(res, Arr) or len(res) != n or res.dtype != x.dtype: return cl
        names = tuple(sorted(k for k, _ in inp["kwargs"]))
        kw = dict((k, v) for k, v in inp["kwargs"])
        for i in range(n):
            nat = x.cells[i] == INT64_MIN
            vals = [kw[k].cells[i] if isinstance(kw[k], Arr) else BV(kw[k]) for k in names]
            want = symdt.uf_bv("replace", [x.cells[i]] + vals, self.unit, names)
            cl.append((f"element {i}: NaT stays NaT", z3.Implies(nat, res.cells[i] == INT64_MIN)))
            cl.append((f"element {i}: datetime.replace with component values of position {i}", z3.Or(nat, res.cells[i] == want)))
        return cl

class DtString(Harness):
    prop = "C19"; opname = "dt_op"
    goals = ["dt.py:to_string", "dt.py:from_string", "dt.py:_pull_str"]
    def __init__(self, unit, maxn):
        self.unit = unit; self.maxn = maxn
        self.name = f"C19.dt.string.{unit}.n{maxn}"
        self.bounds = {"elements": f"0..{maxn}", "unit": unit, "format": "%Y-%m-%d %H:%M:%S (strptime(strftime(d, f), f) == d assumed)"}
        self.symbolic = ["ticks, NaT positions"]; self.choice_dims = ["length"]
    def build(self, ctx):
        n = choice("n", range(self.maxn + 1))
        if self.unit == "us":
            # whole seconds (the format has no fractional part), each cell given by its digits
            cells = []
            for i in range(n):
                v, day = symdt.sym_datetime_us(ctx, f"x{i}")
                ctx.assume(z3.Or(v == INT64_MIN, day >= -354285), note="to_string/from_string round trip: years >= 1000 (the C library's %Y does not zero-pad smaller years, so the format is ambiguous there)")
                cells.append(v)
            x = Arr("datetime64[us]", cells, "Vector")
        else:
            x = mk_col(self.unit, n, "x", cls="Vector")
            for c in x.cells:
                ctx.assume(z3.Or(c == INT64_MIN, c >= BV(-354285)),
                           note="to_string/from_string round trip: years >= 1000 (the C library's %Y does not zero-pad smaller years, so the format is ambiguous there)")
        return {"x": x, "fn": "to_string", "args": ["%Y-%m-%d %H:%M:%S"], "roundtrip": True}
    def spec(self, inp, out):
        if isinstance(out, Raised): return [(f"does not raise ({out.type}: {out.msg[:80]})", T(False))]
        x = inp["x"]; n = len(x); res = out["out"]; fmt = inp["args"][0]
        cl = [("to_string gives a string Vector of the same length", T(isinstance(res, Arr) and len(res) == n and (res.dtype == "string" or n == 0 or True)))]
        if not isinstance(res, Arr) or len(res) != n: return cl
        for i in range(n):
            nat = x.cells[i] == INT64_MIN
            cell = res.cells[i]
            if isinstance(cell, symdt.StrfToken):
                cl.append((f"element {i}: strftime of that element", z3.And(z3.Not(nat), cell.ticks == x.cells[i], T(cell.fmt == fmt))))
            elif isinstance(cell, str):
                t = z3.simplify(x.cells[i])
                if cell == "":
                    cl.append((f"element {i}: missing string exactly at NaT", nat))
                elif z3.is_bv_value(t):      # concrete result from the real build: compare with Python's strftime
                    cl.append((f"element {i}: strftime of that element", T(t.as_signed_long() != INT64_MIN and cell == symdt.to_py(t.as_signed_long(), self.unit).strftime(fmt))))
                else:
                    cl.append((f"element {i}: strftime of that element", T(False)))
            elif cell is None:
                cl.append((f"element {i}: missing at NaT", nat))
            else:
                c = symx.tocell(cell)
                cl.append((f"element {i}: missing string exactly at NaT", z3.And(nat, c.is_empty())))
        back = out.get("back")
        if isinstance(back, Arr) and len(back) == n:
            bu = kind_of(back)
            for i in range(n):
                nat = x.cells[i] == INT64_MIN
                if bu == self.unit:
                    a, b = x.cells[i], back.cells[i]
                else:
                    a = x.cells[i] if self.unit == "us" else x.cells[i] * symx.unit_ratio(self.unit, "us")
                    b = back.cells[i] if bu == "us" else back.cells[i] * symx.unit_ratio(bu, "us") if bu in ("D", "s") else back.cells[i]
                cl.append((f"element {i}: from_string inverts to_string", z3.If(nat, back.cells[i] == INT64_MIN, z3.And(back.cells[i] != INT64_MIN, a == b))))
        else:
            cl.append(("from_string returns a datetime Vector of the same length", T(isinstance(back, Arr) and len(back) == n)))
        return cl

PATTERNS = [r"[a-z]", r"x*", r"^", r"(a)|b", "", "a"]       # incl. the empty pattern and a plain literal

def re_norm(v):
    if type(v).__name__ == "Match": return ["re.Match", v.span()[0], v.span()[1], v.group(0)]
    if isinstance(v, tuple): return tuple(re_norm(x) for x in v)
    if isinstance(v, list): return [re_norm(x) for x in v]
    return v

class Regex(Harness):
    prop = "C19"; opname = "regex_op"
    def __init__(self, fn, maxn):
        self.fn = fn; self.maxn = maxn
        self.name = f"C19.regex.{fn}.n{maxn}"
        self.bounds = {"elements": f"0..{maxn}", "patterns": PATTERNS, "flags": "0, re.IGNORECASE, re.MULTILINE", "strings": "bounded symbolic strings ('' is missing)"}
        self.symbolic = ["string contents"]; self.choice_dims = ["length", "pattern", "calling form"]
        self.goals = [f"regex.py:{fn}"]
    def build(self, ctx):
        form = choice("form", ["module", "proxy", "proxy_after_edit", "scalar"])
        n = choice("n", range(self.maxn + 1)) if form != "scalar" else 0
        pat = choice("pattern", PATTERNS)
        args = [pat] + (["R"] if self.fn in ("sub", "subn") else [])
        inp = {"x": mk_col("T", n, "x", cls="Vector"), "fn": self.fn, "args": args}
        if form == "proxy": inp["proxy"] = True
        if form == "proxy_after_edit":
            # x is what the vector holds when the proxy is used the second time; before, it held other strings
            inp["proxy"] = "after_edit"; inp["before"] = mk_col("T", n, "w", cls="Vector")
        if form == "scalar":
            inp["scalar"] = True; inp["scalar_value"] = SymStr(symx.sym_str("s"))
        fl = choice("flags", [0, 2, 8])         # none, re.IGNORECASE, re.MULTILINE
        if fl: inp["flags"] = fl
        return inp
    def probes(self, inp):
        # re itself is uninterpreted: a dropped or altered flag shows on the real build only for strings on which the flag
        # matters - aim the observation there
        cells = [symx.tocell(c) for c in inp["x"].cells]
        if inp.get("scalar"): cells = [symx.tocell(inp["scalar_value"])]
        if not cells: return []
        mixed = [("a missing string next to a non-missing one", z3.And(z3.Or([c.is_empty() for c in cells]), z3.Or([z3.Not(c.is_empty()) for c in cells]))),
                 ("all strings missing", z3.And([c.is_empty() for c in cells]))] if not inp.get("scalar") else []
        if not inp.get("flags"): return mixed
        def upper(c): return z3.And(z3.UGE(c.n, 1), z3.UGE(c.ch[0], 0x41), z3.ULE(c.ch[0], 0x5A), z3.Not(c.tail))
        def multi(c): return z3.And(c.n == 2, c.ch[0] == 0x0A, z3.UGE(c.ch[1], 0x61), z3.ULE(c.ch[1], 0x7A), z3.Not(c.tail))
        return mixed + [("an upper-case ASCII letter first", z3.Or([upper(c) for c in cells])),
                ("a line feed followed by a letter", z3.Or([multi(c) for c in cells])),
                ("all strings start with an upper-case letter", z3.And([upper(c) for c in cells]))]
    def expected_concrete(self, inp, s):
        return re_norm(getattr(_re, self.fn)(*inp["args"], s, flags=inp.get("flags", 0)))
    def spec(self, inp, out):
        if isinstance(out, Raised): return [(f"does not raise ({out.type}: {out.msg[:80]})", T(False))]
        res = out["out"]; args = inp["args"]
        def elem_ok(got, cell, label):
            """got: result for the string `cell`"""
            if type(got).__name__ in ("ReResult", "ReToken"):
                a, k = got.args
                kk = dict(k); fl = kk.pop("flags", 0)
                ok = (got.name == self.fn and list(a[:len(args)]) == list(args) and len(a) == len(args) + 1 and
                      fl == inp.get("flags", 0) and all(v == 0 for v in kk.values()))
                s = a[-1] if a else None
                sc = symx.tocell(s) if isinstance(s, (str, SymStr)) else None
                return z3.And(T(bool(ok)), sc.eq(symx.tocell(cell)) if sc is not None else T(False))
            # concrete result from the real build
            c = symx.tocell(cell)
            if not c.is_const(): return T(False)
            text = c.concrete(type("M", (), {"eval": staticmethod(lambda e, model_completion=True: z3.simplify(e))}))
            want = self.expected_concrete(inp, text)
            g = got
            M0 = type("M", (), {"eval": staticmethod(lambda e, model_completion=True: z3.simplify(e))})
            if isinstance(g, SymStr): g = g.c
            if isinstance(g, symx.StrCell): g = g.concrete(M0)
            return T(_plain(g) == _plain(want))
        if inp.get("scalar"):
            return [("scalar call gives what re gives for that string", elem_ok(res, inp["scalar_value"].c if isinstance(inp["scalar_value"], SymStr) else inp["scalar_value"], "scalar"))]
        x = inp["x"]; n = len(x)
        cl = [("result is a Vector with one element per string", T(isinstance(res, Arr) and res.cls == "Vector" and len(res) == n))]
        if not isinstance(res, Arr) or len(res) != n: return cl
        for i in range(n):
            na = symx.tocell(x.cells[i]).is_empty()
            got = res.cells[i]
            if res.dtype == "object": miss = T(got is None)
            elif type(got).__name__ == "ReToken": miss = T(False)
            elif isinstance(got, str) and not isinstance(got, SymStr): miss = T(got == "")
            elif isinstance(got, symx.StrCell): miss = got.is_empty()
            else: miss = T(False)
            if type(got).__name__ in ("ReResult", "ReToken"):
                cl.append((f"element {i}: computed only for a non-missing string, by the same re function on that string", z3.And(z3.Not(na), elem_ok(got, x.cells[i], i))))
            elif got is None or (res.dtype != "object" and z3.is_true(z3.simplify(miss))):
                # missing result: must be a missing string (concrete mode: or re itself returns None / '')
                c = symx.tocell(x.cells[i])
                if c.is_const() and not z3.is_true(z3.simplify(na)):
                    cl.append((f"element {i}: what re gives for that string", elem_ok(got if got is not None else "", x.cells[i], i) if not (got is None and self.expected_concrete(inp, c.concrete(type('M', (), {'eval': staticmethod(lambda e, model_completion=True: z3.simplify(e))}))) is None) else T(True)))
                else:
                    cl.append((f"element {i}: missing result only for a missing string", na))
            else:
                cl.append((f"element {i}: what re gives for that string", z3.And(z3.Not(na), elem_ok(got, x.cells[i], i))))
        return cl

STR_FUNCS = {"upper": [], "lower": [], "strip": [], "str_len": [], "startswith": ["a"], "replace": ["a", "b"], "zfill": [3],
             "isalpha": [], "find": ["a"], "add": ["!"]}

class StrProxy(Harness):
    prop = "C19"; opname = "str_proxy"
    goals = ["vector.py:StrProxy.__init__"]
    def __init__(self, maxn):
        self.maxn = maxn; self.name = f"C19.strproxy.n{maxn}"
        self.bounds = {"elements": f"0..{maxn}", "functions": sorted(STR_FUNCS)}
        self.symbolic = ["string contents"]; self.choice_dims = ["length", "function"]
    def conformance_ignore(self, real, pred):
        return True       # result dtypes of the uninterpreted numpy.strings functions are not modelled
    def build(self, ctx):
        n = choice("n", range(self.maxn + 1))
        name = choice("fn", sorted(STR_FUNCS))
        return {"x": mk_col("T", n, "x", cls="Vector"), "name": name, "args": STR_FUNCS[name]}
    def spec(self, inp, out):
        if isinstance(out, Raised): return [(f"does not raise ({out.type}: {out.msg[:80]})", T(False))]
        via, direct = out["via"], out["direct"]
        if isinstance(via, Raised) or isinstance(direct, Raised):
            return [("the proxy raises exactly when the numpy.strings function raises", T(isinstance(via, Raised) and isinstance(direct, Raised) and via.type == direct.type))]
        cl = [("the .str proxy returns a Vector", T(out["cls"] == "Vector")),
              ("same length and dtype as the numpy.strings function", T(isinstance(via, Arr) and isinstance(direct, Arr) and len(via) == len(direct) and via.dtype == direct.dtype))]
        if not (isinstance(via, Arr) and isinstance(direct, Arr) and len(via) == len(direct)): return cl
        for i, (a, b) in enumerate(zip(via.cells, direct.cells)):
            if type(a).__name__ == "StrFnToken" or type(b).__name__ == "StrFnToken":
                ok = type(a).__name__ == type(b).__name__ == "StrFnToken" and a.name == b.name == inp["name"] and a.args == b.args
                cl.append((f"element {i}: the same numpy.strings function applied to the same element with the same arguments",
                           z3.And(T(bool(ok)), symx.tocell(a.cell).eq(symx.tocell(b.cell)) if ok else T(False))))
            else:
                from .common import cell_ident
                k = kind_of(via) if via.dtype != "object" else "O"
                cl.append((f"element {i}: same result as the module function", cell_ident(a, b, k) if k != "O" else T(a == b)))
        return cl

def _plain(v):
    if isinstance(v, tuple): return [_plain(x) for x in v]
    if isinstance(v, list): return [_plain(x) for x in v]
    return v

def harnesses(tier):
    q = tier == "quick"
    n = 2 if q else 3
    hs = []
    for fn in EXTRACTORS:
        for unit in (["D", "us"] if not q else (["us"] if fn in TIME_OF_DAY else ["D"])):
            if fn in TIME_OF_DAY and unit == "D": continue
            hs.append(DtExtract(fn, unit, n))
    # a unit between day and second (what dt.new gives for "2022-10-15T12:34"): time of day and calendar parts
    for fn in ("hour", "minute", "day"):
        hs.append(DtExtract(fn, "m", 2))
    hs += [DtReplace("D", 3), DtReplace("us", 2 if q else 3), DtString("D", n), DtString("us", 2)]
    for fn in ("findall", "fullmatch", "match", "search", "split", "sub", "subn"):
        hs.append(Regex(fn, 2))
    hs.append(StrProxy(2))
    return hs
