"""Generic harness runner: explore all paths of a harness, discharge the property obligation
per path with the solver, replay witnesses and counterexamples on the real build."""
import contextlib
import io
import json
import os
import subprocess
import sys
import time
import traceback

import z3

from . import symx, symcodec, ops, symnp
from .tree import Raised

HERE = os.path.dirname(os.path.dirname(os.path.abspath(__file__)))
REAL_PY = os.environ.get("VF_REAL_PYTHON", "/venv/bin/python")

# ------------------------------------------------------------------ replay client (one per process)

class ReplayClient:
    def __init__(self, env_extra=None):
        env = dict(os.environ)
        env.pop("PYTHONPATH", None)
        env["PYTHONDONTWRITEBYTECODE"] = "1"
        env.update(env_extra or {})
        import tempfile
        self.err = tempfile.TemporaryFile(mode="w+")
        self.p = subprocess.Popen([REAL_PY, "-m", "vf.replay_server"], cwd=HERE, env=env,
                                  stdin=subprocess.PIPE, stdout=subprocess.PIPE, stderr=self.err,
                                  text=True, bufsize=1)
    def call(self, op, inputs):
        self.p.stdin.write(json.dumps({"op": op, "inputs": inputs}) + "\n")
        self.p.stdin.flush()
        line = self.p.stdout.readline()
        if not line:
            self.err.seek(0)
            tail = self.err.read()[-600:]
            rc = self.p.wait()
            if rc is not None and rc < 0:
                # the real interpreter was killed by a signal (e.g. SIGSEGV inside NumPy) while running the operation:
                # that is an outcome of the operation on this input, not a harness problem
                self.dead = True
                return {"out": {"exc": "ProcessCrash", "msg": f"real interpreter died with signal {-rc} {tail}"}}
            raise symx.HarnessError(f"replay server exited with status {rc} on op {op}: {tail}")
        return json.loads(line)
    def close(self):
        try:
            self.p.stdin.close()
            self.p.wait(timeout=5)
        except Exception:
            self.p.kill()

_client = None
_client_pid = None

def replay(op, inputs):
    global _client, _client_pid
    if _client is None or _client_pid != os.getpid() or _client.p.poll() is not None or getattr(_client, "dead", False):
        _client = ReplayClient()
        _client_pid = os.getpid()
    try:
        r = _client.call(op, inputs)
    except (BrokenPipeError, OSError):
        _client = ReplayClient()
        r = _client.call(op, inputs)
    if "error" in r:
        raise symx.HarnessError("replay error: " + r["error"] + "\n" + r.get("tb", ""))
    return r

# ------------------------------------------------------------------ harness base

class Harness:
    prop = "C00"
    name = "harness"
    opname = None
    goals = ()          # coverage goals: "file.py:qualname" that some path must execute
    bounds = {}         # reported in the evidence
    symbolic = ()       # symbolic dimensions (text)
    choice_dims = ()    # choice dimensions (text)
    def build(self, ctx):
        raise NotImplementedError
    def spec(self, inp, out):
        """-> list of (label, z3 Bool | bool)"""
        raise NotImplementedError
    def regions(self, inp):
        """-> {region name: z3 Bool over the inputs}; inputs inside a region listed in
        known_findings.json are excluded from the 'new violation' query"""
        return {}
    def probes(self, inp):
        """-> list of (label, z3 Bool over the inputs): extra inputs of this path to OBSERVE on the real build, next to the
        path's witness - one satisfying assignment per probe that is compatible with the path condition.  Probes are not
        part of the solver's verdict; they aim the real-build observation at corners the model cannot see into
        (uninterpreted reducers, compiled kernels)"""
        return []
    def conformance_ignore(self, real_json, pred_json):
        """hook: return True to skip the model-vs-real comparison for this witness"""
        return False

class Prepared(Harness):
    """the same harness with operands that are results of an earlier operation: the op wrapper deep-copies the frames named
    data / a / b before the call (their columns then own their memory instead of being views of the arrays given)"""
    def __init__(self, inner):
        self.inner = inner
        self.prop = inner.prop; self.opname = inner.opname; self.goals = inner.goals
        base, sep, n = inner.name.rpartition(".n")
        self.name = f"{base}.prepared.n{n}" if sep else inner.name + ".prepared"
        self.bounds = dict(inner.bounds, operands="results of an earlier operation (deep copies)")
        self.symbolic = inner.symbolic; self.choice_dims = inner.choice_dims
        if getattr(inner, "observed_only", False): self.observed_only = True
    def build(self, ctx):
        inp = self.inner.build(ctx); inp["prep"] = "deepcopy"; return inp
    def spec(self, inp, out): return self.inner.spec(inp, out)
    def regions(self, inp): return self.inner.regions(inp)
    def probes(self, inp): return self.inner.probes(inp)
    def conformance_ignore(self, real, pred): return self.inner.conformance_ignore(real, pred)

_W = None

def world():
    global _W
    if _W is None:
        _W = ops.SymWorld()
    return _W

def _to_bool(e):
    if isinstance(e, symx.SymBool): return e.e
    if isinstance(e, bool): return z3.BoolVal(e)
    return e

def _and(clauses):
    cs = [_to_bool(c) for _, c in clauses]
    return z3.And(cs) if cs else z3.BoolVal(True)

def _failing(clauses, m):
    bad = []
    for label, c in clauses:
        v = m.eval(_to_bool(c), model_completion=True) if m is not None else z3.simplify(_to_bool(c))
        if not z3.is_true(v):
            bad.append(label)
    return bad

def concrete_verdict(h, inp_json, out_json):
    """evaluate the harness's spec on concrete inputs/outputs: (holds: bool, failing clause labels)"""
    inp = symcodec.decode(inp_json)
    out = symcodec.decode(out_json)
    clauses = full_spec(h, inp, out)
    bad = _failing(clauses, None)
    return (not bad), bad

def full_spec(h, inp, out):
    """the harness's clauses plus the clause common to all of them: the call leaves the library itself alone
    (default arguments, class-level containers); every property is quantified over later calls as well"""
    clauses = list(h.spec(inp, out))
    changed = out.get("library_state_changed") if isinstance(out, dict) else None
    if changed:
        clauses.append((f"the call does not modify default arguments or class-level state of the library ({', '.join(map(str, changed))[:200]})", z3.BoolVal(False)))
    return clauses

def _same_json(a, b):
    if isinstance(a, dict) and isinstance(b, dict) and "exc" in a and "exc" in b:
        return a["exc"] == b["exc"]       # exception type; messages are not modelled
    return _wild_eq(a, b)

def _wild_eq(real, pred):
    """deep equality; a float predicted through an uninterpreted reducer matches any real float"""
    if pred == symcodec.UF_WILDCARD:
        return True
    if isinstance(pred, dict) and isinstance(real, dict):
        return pred.keys() == real.keys() and all(_wild_eq(real[k], pred[k]) for k in pred)
    if isinstance(pred, list) and isinstance(real, list):
        return len(pred) == len(real) and all(_wild_eq(r, p) for r, p in zip(real, pred))
    return type(pred) is type(real) and pred == real

def make_path_fn(h, known_regions, do_replay=True):
    def fn(ctx):
        t0 = time.time()
        inp = h.build(ctx)
        live = symcodec.materialise(inp)
        buf = io.StringIO()
        try:
            with contextlib.redirect_stdout(buf):
                r = ops.OPS[h.opname](live, world())
                out = symcodec.norm(r)
        except Exception as e:
            out = Raised(type(e).__name__, str(e))
            tb = traceback.format_exc()
        # the oracle only builds formulas: forking inside it would silently strengthen the path condition
        ctx.no_fork = True
        try:
            clauses = full_spec(h, inp, out)
            phi = _and(clauses)
            regs = {k: _to_bool(v) for k, v in h.regions(inp).items() if k in known_regions}
        finally:
            ctx.no_fork = False
        R = z3.Or(list(regs.values())) if regs else z3.BoolVal(False)
        res = {"harness": h.name, "raised": out.type if isinstance(out, Raised) else None, "t_exec": time.time() - t0}
        # obligation 1: no violation outside the known regions
        r1, m1 = ctx.check(z3.Not(phi), z3.Not(R))
        res["obligations"] = 1
        res["verdict"] = {"unsat": "proved", "sat": "violation", "unknown": "unknown"}[r1]
        w = ctx.witness()
        res["witness"] = symcodec.encode(inp, w)
        pred_w = symcodec.encode_out(out, w)
        if r1 == "sat":
            res["cex"] = symcodec.encode(inp, m1)
            res["cex_pred"] = symcodec.encode_out(out, m1)
            res["cex_failing"] = _failing(clauses, m1)
        # obligation 2: is there a violation inside a known region on this path?
        if regs and r1 == "unsat":
            r2, m2 = ctx.check(z3.Not(phi), R)
            res["obligations"] += 1
            if r2 == "sat":
                res["known"] = {"region": [k for k, v in regs.items() if z3.is_true(m2.eval(v, model_completion=True))],
                                "cex": symcodec.encode(inp, m2), "failing": _failing(clauses, m2)}
            elif r2 == "unknown":
                res["verdict"] = "unknown"
        if do_replay:
            # witness replay: conformance of the model + concrete spec on the real build
            rr = replay(h.opname, res["witness"])
            real = rr["out"]
            res["witness_conforms"] = _same_json(real, pred_w) or bool(h.conformance_ignore(real, pred_w))
            if not res["witness_conforms"] and any(symcodec._has_uf(c) for c in ctx.pc):
                # the path condition constrains the value of an uninterpreted NumPy reducer (np.mean, ...):
                # the witness fixes an arbitrary value for it, so the real run need not follow this path
                res["witness_conforms"] = None
                res["witness_unvalidated"] = "path condition depends on an uninterpreted reducer"
            if res["witness_conforms"] is False:
                res["witness_real"] = real
                res["witness_pred"] = pred_w
            holds, bad = concrete_verdict(h, res["witness"], real)
            res["witness_real_holds"] = holds
            if not holds:
                res["witness_real_failing"] = bad
                res["witness_real_out"] = real
                # is the witness inside a known region?
                wi = symcodec.decode(res["witness"])
                inreg = [k for k, v in h.regions(wi).items() if k in known_regions and z3.is_true(z3.simplify(_to_bool(v)))]
                res["witness_in_region"] = inreg
            rounds = 0
            while "cex" in res:
                rr = replay(h.opname, res["cex"])
                holds, bad = concrete_verdict(h, res["cex"], rr["out"])
                res["cex_reproduced"] = not holds
                res["cex_real_failing"] = bad
                res["cex_real_out"] = rr["out"]
                res["cex_conforms"] = _same_json(rr["out"], res["cex_pred"])
                if not holds or rounds >= 4 or not ctx.notes.get("uf"):
                    break
                # counterexample-guided refinement of the uninterpreted reducers: the counterexample gave
                # np.mean & co. arbitrary values; pin them to the real NumPy values at these arguments and re-solve
                rounds += 1
                added = 0
                for key, apps in ctx.notes["uf"].items():
                    for args, r in apps:
                        vals = [m1.eval(a, model_completion=True) for a in args]
                        try:
                            real = symnp._uf_concrete(key[0], vals, key[3])
                        except BaseException:
                            continue
                        ctx.assume(z3.Implies(z3.And([a == v for a, v in zip(args, vals)]) if args else z3.BoolVal(True), r == real))
                        added += 1
                if not added: break
                r1, m1 = ctx.check(z3.Not(phi), z3.Not(R))
                res["obligations"] += 1
                res["uf_refinements"] = rounds
                res["verdict"] = {"unsat": "proved", "sat": "violation", "unknown": "unknown"}[r1]
                for k in ("cex", "cex_pred", "cex_failing", "cex_reproduced", "cex_real_failing", "cex_real_out", "cex_conforms"):
                    res.pop(k, None)
                if r1 == "sat":
                    res["cex"] = symcodec.encode(inp, m1)
                    res["cex_pred"] = symcodec.encode_out(out, m1)
                    res["cex_failing"] = _failing(clauses, m1)
            probes = []
            for label, cond in h.probes(inp):
                rp, mp = ctx.check(_to_bool(cond))
                if rp != "sat": continue
                pin = symcodec.encode(inp, mp)
                rr = replay(h.opname, pin)
                holds, bad = concrete_verdict(h, pin, rr["out"])
                rec = {"label": label, "holds": holds}
                if not holds:
                    pi = symcodec.decode(pin)
                    rec.update(inputs=pin, failing=bad, out=rr["out"],
                               in_region=[k for k, v in h.regions(pi).items() if k in known_regions and z3.is_true(z3.simplify(_to_bool(v)))])
                probes.append(rec)
            if probes: res["probes"] = probes
            if "known" in res:
                rr = replay(h.opname, res["known"]["cex"])
                holds, bad = concrete_verdict(h, res["known"]["cex"], rr["out"])
                res["known"]["reproduced"] = not holds
                res["known"]["real_out"] = rr["out"]
        return res
    return fn

def _resolver(key):
    name, regions, do_replay = key
    from .check import find_harness
    return make_path_fn(find_harness(name), set(regions), do_replay)

symx.RESOLVER = _resolver

def run_harness(h, known_regions=(), procs=None, max_paths=200000, deadline_s=None, do_replay=True, on_result=None):
    t0 = time.time()
    key = (h.name, tuple(sorted(known_regions)), do_replay)
    results, complete, cov = symx.explore(key, procs=procs, max_paths=max_paths, deadline_s=deadline_s,
                                          on_result=on_result)
    return {"harness": h, "results": results, "complete": complete, "coverage": cov, "wall": time.time() - t0}
