"""Set up the symbolic process: real dataiter source from /repo over the symnp NumPy model."""
import hashlib
import os
import sys

REPO = os.environ.get("VF_REPO", "/repo")
_di = None

def load():
    """Import the real dataiter package from REPO with numpy replaced by symnp."""
    global _di
    if _di is not None:
        return _di
    os.environ["DATAITER_USE_NUMBA"] = "0"
    os.environ.pop("DATAITER_USE_NUMBA_CACHE", None)
    from . import symnp, coverage
    for name in list(sys.modules):
        if name == "numpy" or name.startswith("numpy."):
            raise RuntimeError("real numpy already imported in the symbolic process")
    symnp.install()
    if REPO not in sys.path:
        sys.path.insert(0, REPO)
    coverage.start()
    import dataiter
    if not dataiter.__file__.startswith(REPO + "/"):
        raise RuntimeError(f"dataiter imported from {dataiter.__file__}, expected {REPO}")
    _di = dataiter
    return dataiter

def source_hashes():
    out = {}
    d = os.path.join(REPO, "dataiter")
    for fn in sorted(os.listdir(d)):
        if fn.endswith(".py"):
            out["dataiter/" + fn] = hashlib.sha256(open(os.path.join(d, fn), "rb").read()).hexdigest()
    return out
