"""Replay server: runs operations on the REAL build (real NumPy, real dataiter from /repo).

Started as  /venv/bin/python -m vf.replay_server  with cwd=/verif; speaks JSON lines:
    {"op": name, "inputs": <json tree>}  ->  {"out": <json tree>} | {"error": text}
An exception escaping the operation is part of the result: {"out": {"exc": type, "msg": text}}.
"""
import io
import json
import os
import sys
import traceback
import contextlib

def main():
    repo = os.environ.get("VF_REPO", "/repo")
    sys.path.insert(0, repo)
    os.environ.setdefault("DATAITER_USE_NUMBA", "0")
    import warnings
    warnings.filterwarnings("ignore")
    import numpy as np
    np.seterr(all="ignore")
    import dataiter as di
    assert di.__file__.startswith(repo + "/"), di.__file__
    from vf import ops, realcodec
    W = ops.RealWorld()
    out = sys.stdout
    sys.stdout = sys.stderr
    for line in sys.stdin:
        line = line.strip()
        if not line:
            continue
        try:
            job = json.loads(line)
            if job.get("op") == "__ping__":
                res = {"out": "pong", "numpy": np.__version__}
            else:
                inp = realcodec.decode(job["inputs"])
                buf = io.StringIO()
                try:
                    with contextlib.redirect_stdout(buf), contextlib.redirect_stderr(io.StringIO()):
                        r = ops.OPS[job["op"]](inp, W)
                    failed = None
                except Exception as e:
                    failed = {"out": {"exc": type(e).__name__, "msg": str(e)}, "tb": traceback.format_exc()[-1500:]}
                res = failed or {"out": realcodec.encode(r)}
                res["stdout"] = buf.getvalue()[-2000:]
        except BaseException as e:
            res = {"error": f"{type(e).__name__}: {e}", "tb": traceback.format_exc()[-3000:]}
        out.write(json.dumps(res) + "\n")
        out.flush()

if __name__ == "__main__":
    main()
