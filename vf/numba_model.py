"""Model of the Numba side of dataiter.aggregate for the symbolic process.

* @njit is the identity: the kernels' Python source runs under Python/symnp semantics
  (aggregate.py's own dummy_jit already does that when Numba is off);
* @overload(is_na_item_numba) dispatch is modelled by the sort of the cell:
  Float -> np.isnan, NPDatetime -> np.isnat, UnicodeType -> == "", anything else -> False;
* np.unique inside a kernel follows Numba's implementation (sort + neighbour !=): NaNs are not collapsed.
Every witness is replayed on the real Numba build in a fresh process, which is what keeps this model honest."""
import contextlib
import io

from . import symnp, symx
from .symx import SymDT, SymF64, SymStr

class _T: pass
class Float(_T): pass
class NPDatetime(_T): pass
class UnicodeType(_T): pass
class Other(_T): pass

_installed = False

def install(di):
    global _installed
    if _installed: return
    from dataiter import aggregate as ag
    ag.types = type("types", (), dict(Float=Float, NPDatetime=NPDatetime, UnicodeType=UnicodeType))
    overload_impl = ag.is_na_item_numba_overload
    def is_na_item(x):
        t = Float() if isinstance(x, SymF64) else NPDatetime() if isinstance(x, SymDT) else \
            UnicodeType() if isinstance(x, (SymStr, str)) else Other()
        with contextlib.redirect_stdout(io.StringIO()):
            f = overload_impl(t)
        return f(x)
    ag.is_na_item_numba = is_na_item
    _installed = True

def run(inp, W):
    from . import ops
    di = W.di
    install(di)
    from unittest.mock import patch
    outs = {}
    for label, flag in (("on", True), ("off", False)):
        res = []
        symnp.NUMBA_MODE = flag
        try:
            with patch("dataiter.USE_NUMBA", flag), contextlib.redirect_stdout(io.StringIO()):
                for st in inp["steps"]:
                    try:
                        res.append(ops.aggregate_once(st, di))
                    except Exception as e:
                        from .tree import Raised
                        res.append(Raised(type(e).__name__, str(e)[:300]))
        finally:
            symnp.NUMBA_MODE = False
        outs[label] = res
    return outs
