"""Model of the Numba side of dataiter.aggregate for the symbolic process.

* @njit is the identity: the kernels' Python source runs under Python/symnp semantics
  (aggregate.py's own dummy_jit already does that when Numba is off);
* @overload(is_na_item_numba) dispatch is modelled by the sort of the cell:
  Float -> np.isnan, NPDatetime -> np.isnat, UnicodeType -> == "", anything else -> False;
* arguments that are ndarray subclasses are unboxed to base-class views (Numba types them as plain arrays);
* np.unique inside a kernel follows Numba's implementation (sort + neighbour !=): NaNs are not collapsed.
Every witness is replayed on the real Numba build in a fresh process, which is what keeps this model honest."""
import contextlib
import io

from . import symnp, symx
from .symx import SymDT, SymF64, SymStr

class _T: pass
class Float(_T): pass
class NPDatetime(_T): pass
class UnicodeType(_T): pass
class Other(_T): pass

_installed = False

def install(di):
    global _installed
    if _installed: return
    from dataiter import aggregate as ag
    ag.types = type("types", (), dict(Float=Float, NPDatetime=NPDatetime, UnicodeType=UnicodeType))
    overload_impl = ag.is_na_item_numba_overload
    def is_na_item(x):
        t = Float() if isinstance(x, SymF64) else NPDatetime() if isinstance(x, SymDT) else \
            UnicodeType() if isinstance(x, (SymStr, str)) else Other()
        with contextlib.redirect_stdout(io.StringIO()):
            f = overload_impl(t)
        return f(x)
    ag.is_na_item_numba = is_na_item
    # unboxing: a compiled kernel sees an ndarray subclass (Vector / DataFrameColumn) as a plain array over the same
    # memory, so methods resolve to ndarray's (x.sort() sorts in place, it is not Vector.sort)
    import functools, types as _types
    def unboxing(f):
        @functools.wraps(f)
        def call(*a, **k):
            a = [x.view(symnp.ndarray) if isinstance(x, symnp.ndarray) and type(x) is not symnp.ndarray else x for x in a]
            return f(*a, **k)
        call._vf_unboxing = True
        return call
    for name, f in list(vars(ag).items()):
        if name.endswith("_numba") and isinstance(f, _types.FunctionType) and name not in ("is_na_item_numba", "generic_numba") and not getattr(f, "_vf_unboxing", False):
            setattr(ag, name, unboxing(f))
    gen = ag.generic_numba
    @functools.lru_cache(256)
    def generic_numba(function):
        return unboxing(gen(function))
    ag.generic_numba = generic_numba
    _installed = True

def run(inp, W):
    from . import ops
    di = W.di
    install(di)
    from unittest.mock import patch
    outs = {}
    for label, flag in (("on", True), ("off", False)):
        res = []
        symnp.NUMBA_MODE = flag
        try:
            with patch("dataiter.USE_NUMBA", flag), contextlib.redirect_stdout(io.StringIO()):
                for st in inp["steps"]:
                    try:
                        res.append(ops.aggregate_once(st, di))
                    except Exception as e:
                        from .tree import Raised
                        res.append(Raised(type(e).__name__, str(e)[:300]))
        finally:
            symnp.NUMBA_MODE = False
        outs[label] = res
    return outs
