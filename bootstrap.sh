#!/bin/sh
# Creates /verif/.venv: the interpreter of /venv (CPython 3.12, so the repo's own
# pure-Python dependencies attd and wcwidth import unchanged) plus z3-solver from
# the offline wheelhouse.  Idempotent; called by MANIFEST.setup_cmd and at the top
# of every check command.  Needs no network.
set -e
HERE="$(cd "$(dirname "$0")" && pwd)"
VENV="$HERE/.venv"
STAMP="$VENV/.ok-v2"
if [ -f "$STAMP" ] && "$VENV/bin/python" -c "import z3" >/dev/null 2>&1; then
    exit 0
fi
rm -rf "$VENV"
/venv/bin/python -m venv "$VENV" >/dev/null
SP="$VENV/lib/python3.12/site-packages"
# make /venv's site-packages visible (attd, wcwidth; the real numpy is never
# imported by the symbolic process: sys.modules["numpy"] is replaced first)
echo "import site; site.addsitedir('/venv/lib/python3.12/site-packages')" > "$SP/_base.pth"
PIP_NO_INDEX=1 "$VENV/bin/python" -m pip install --quiet --no-index \
    --find-links /opt/veriftools/wheels z3-solver >/dev/null
"$VENV/bin/python" -c "import z3; print('bootstrap: z3', z3.get_version_string())"
touch "$STAMP"
